package main

import (
	"context"
	"fmt"
	"io"
	"sync"

	"google.golang.org/grpc"
	"google.golang.org/grpc/codes"
	"google.golang.org/grpc/metadata"
	"google.golang.org/grpc/status"
	"google.golang.org/protobuf/proto"

	clusterv1 "github.com/apache/skywalking-banyandb/api/proto/banyandb/cluster/v1"
)

// pipe is one in-memory SyncPart stream: the client half implements grpc.ClientStream (handed to the real pub
// client by a stream interceptor, so no connection is ever made), the server half implements
// clusterv1.ChunkedSyncService_SyncPartServer (handed to the real sub server).  Nothing moves by itself: a message
// that was sent sits in reqQ / respQ ("in flight") until the replayer delivers, drops, duplicates or damages it.
// Messages are cloned on send, as serialisation does.

type reqItem struct {
	m   *clusterv1.SyncPartRequest
	eos bool // the request stream ends here (the receiver reads io.EOF)
}

type respItem struct {
	m   *clusterv1.SyncPartResponse
	err error // end of the stream as the client sees it (io.EOF = the handler returned nil)
	end bool
}

type heldReq struct {
	m     *clusterv1.SyncPartRequest
	after int
}

type pipe struct {
	ctx         context.Context
	recvPanic   any
	recvErr     error
	cancel      context.CancelFunc
	mu          *sync.Mutex // the world's lock: one lock and one condition for every goroutine of a replay
	cond        *sync.Cond
	held        *heldReq
	stream      any // the server half (key of the session registry)
	toRecv      []reqItem
	toRecvErr   error
	respQ       []respItem
	toSend      []respItem
	reqQ        []reqItem
	sent        []*clusterv1.SyncPartRequest // everything the sender put on the wire (golden runs)
	recvWaiting bool
	recvDone    bool
	sendWaiting bool
	sendEnded   bool // the client has been given the end of the stream
}

func newPipe(w *world) *pipe {
	p := &pipe{mu: &w.mu, cond: w.cond}
	p.ctx, p.cancel = context.WithCancel(context.Background())
	return p
}

// ---------------- server half ----------------

type srvStream struct{ p *pipe }

func (s *srvStream) Recv() (*clusterv1.SyncPartRequest, error) {
	p := s.p
	p.mu.Lock()
	defer p.mu.Unlock()
	for {
		if len(p.toRecv) > 0 {
			it := p.toRecv[0]
			p.toRecv = p.toRecv[1:]
			p.recvWaiting = false
			if it.eos {
				return nil, io.EOF
			}
			return it.m, nil
		}
		if p.toRecvErr != nil {
			p.recvWaiting = false
			return nil, p.toRecvErr
		}
		p.recvWaiting = true
		p.cond.Broadcast()
		p.cond.Wait()
	}
}

func (s *srvStream) Send(r *clusterv1.SyncPartResponse) error {
	p := s.p
	p.mu.Lock()
	defer p.mu.Unlock()
	if p.ctx.Err() != nil {
		return status.Error(codes.Canceled, "verif: stream cancelled")
	}
	p.respQ = append(p.respQ, respItem{m: proto.Clone(r).(*clusterv1.SyncPartResponse)})
	return nil
}

func (s *srvStream) Context() context.Context     { return s.p.ctx }
func (s *srvStream) SetHeader(metadata.MD) error  { return nil }
func (s *srvStream) SendHeader(metadata.MD) error { return nil }
func (s *srvStream) SetTrailer(metadata.MD)       {}
func (s *srvStream) SendMsg(any) error            { return fmt.Errorf("verif: SendMsg not used") }
func (s *srvStream) RecvMsg(any) error            { return fmt.Errorf("verif: RecvMsg not used") }

// serve runs the real handler on the server half.
func (p *pipe) serve(srv clusterv1.ChunkedSyncServiceServer) {
	st := &srvStream{p: p}
	p.stream = st
	go func() {
		var err error
		var pv any
		func() {
			defer func() { pv = recover() }()
			err = srv.SyncPart(st)
		}()
		p.mu.Lock()
		p.recvDone = true
		p.recvWaiting = false
		p.recvErr = err
		p.recvPanic = pv
		p.reqQ = nil // the stream is closed: whatever is still in flight is lost
		p.held = nil
		end := respItem{end: true, err: io.EOF}
		if err != nil || pv != nil {
			end.err = status.Error(codes.Unknown, fmt.Sprintf("verif: handler failed: %v %v", err, pv))
		}
		p.respQ = append(p.respQ, end)
		p.cond.Broadcast()
		p.mu.Unlock()
	}()
}

// ---------------- client half ----------------

type cliStream struct {
	p   *pipe
	ctx context.Context
}

func (c *cliStream) Header() (metadata.MD, error) { return nil, nil }
func (c *cliStream) Trailer() metadata.MD         { return nil }
func (c *cliStream) CloseSend() error             { return nil }
func (c *cliStream) Context() context.Context     { return c.ctx }

func (c *cliStream) SendMsg(m any) error {
	p := c.p
	p.mu.Lock()
	defer p.mu.Unlock()
	req, ok := m.(*clusterv1.SyncPartRequest)
	if !ok {
		return fmt.Errorf("verif: unexpected message type %T", m)
	}
	if p.recvDone || p.sendEnded {
		return io.EOF // gRPC: SendMsg on a finished stream
	}
	cl := proto.Clone(req).(*clusterv1.SyncPartRequest)
	p.sent = append(p.sent, cl)
	p.reqQ = append(p.reqQ, reqItem{m: cl})
	if p.held != nil {
		p.held.after--
		if p.held.after <= 0 {
			p.reqQ = append(p.reqQ, reqItem{m: p.held.m})
			p.held = nil
		}
	}
	return nil
}

func (c *cliStream) RecvMsg(m any) error {
	p := c.p
	p.mu.Lock()
	defer p.mu.Unlock()
	for {
		if len(p.toSend) > 0 {
			it := p.toSend[0]
			p.sendWaiting = false
			if it.end {
				p.sendEnded = true // sticky
				return it.err
			}
			p.toSend = p.toSend[1:]
			dst := m.(proto.Message)
			proto.Reset(dst)
			proto.Merge(dst, it.m)
			return nil
		}
		p.sendWaiting = true
		p.cond.Broadcast()
		p.cond.Wait()
	}
}

// interceptor makes every SyncPart call of the real client open a pipe served by the real receiver.
func (w *world) interceptor(ctx context.Context, _ *grpc.StreamDesc, _ *grpc.ClientConn, method string, _ grpc.Streamer,
	_ ...grpc.CallOption,
) (grpc.ClientStream, error) {
	if method != clusterv1.ChunkedSyncService_SyncPart_FullMethodName {
		return nil, status.Error(codes.Unimplemented, "verif: "+method)
	}
	p := newPipe(w)
	w.mu.Lock()
	w.pipe = p
	w.pipes++
	w.mu.Unlock()
	p.serve(w.srv)
	return &cliStream{p: p, ctx: ctx}, nil
}
