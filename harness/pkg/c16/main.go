// Command c16 binds spec/Placement.tla to pkg/node (round-robin selector), banyand/liaison/grpc
// (cluster node registry) and pkg/partition (shard function).
//
//	-mode replay -in behaviours.ndjson   spec -> code: every event of every TLC behaviour is applied to a
//	                                     real selector behind a real clusterNodeService; Pick is compared
//	                                     with the spec's assignment after every event.
//	-mode route -coord A -trace out      code -> spec: emits Route events of the real shard function for a
//	                                     generated workload; validated by PlacementTrace.tla.
package main

import (
	"context"
	"encoding/json"
	"flag"
	"fmt"
	"math/rand"
	"os"

	commonv1 "github.com/apache/skywalking-banyandb/api/proto/banyandb/common/v1"
	databasev1 "github.com/apache/skywalking-banyandb/api/proto/banyandb/database/v1"
	modelv1 "github.com/apache/skywalking-banyandb/api/proto/banyandb/model/v1"
	"github.com/apache/skywalking-banyandb/banyand/metadata"
	"github.com/apache/skywalking-banyandb/banyand/metadata/schema"
	lgrpc "github.com/apache/skywalking-banyandb/banyand/liaison/grpc"
	"github.com/apache/skywalking-banyandb/banyand/queue"
	"github.com/apache/skywalking-banyandb/api/data"
	"github.com/apache/skywalking-banyandb/pkg/bus"
	"github.com/apache/skywalking-banyandb/banyand/verifharness/vlib"
	"github.com/apache/skywalking-banyandb/pkg/node"
	"github.com/apache/skywalking-banyandb/pkg/partition"
)

// names whose byte order equals the integer order of the model (and differs from numeric order of the suffix)
var (
	groupNames = []string{"", "g-1", "g-10", "g-2", "g-3"}
	nodeNames  = []string{"", "n1", "n10", "n2", "n3", "n4"}
)

type fakeGroups struct {
	schema.Group
	list func() []*commonv1.Group
}

func (f fakeGroups) ListGroup(context.Context) ([]*commonv1.Group, error) { return f.list(), nil }

type fakeRepo struct {
	metadata.Repo
	g fakeGroups
}

func (f fakeRepo) GroupRegistry() schema.Group                      { return f.g }
func (f fakeRepo) RegisterHandler(string, schema.Kind, schema.EventHandler) {}

func groupSpec(g, shards, replicas int) *commonv1.Group {
	return &commonv1.Group{
		Metadata:     &commonv1.Metadata{Name: groupNames[g]},
		Catalog:      commonv1.Catalog_CATALOG_MEASURE,
		ResourceOpts: &commonv1.ResourceOpts{ShardNum: uint32(shards), Replicas: uint32(replicas)},
	}
}

func nodeSpec(x int) *databasev1.Node {
	return &databasev1.Node{Metadata: &commonv1.Metadata{Name: nodeNames[x]}, GrpcAddress: "127.0.0.1:1"}
}

func indexOf(names []string, s string) int {
	for i, n := range names {
		if n == s && i > 0 {
			return i
		}
	}
	return 0
}

type fakePipeline struct {
	queue.Client
	handlers []schema.EventHandler
}

func (f *fakePipeline) Register(_ bus.Topic, h schema.EventHandler) { f.handlers = append(f.handlers, h) }

type coordinator struct {
	sel    node.Selector
	reg    lgrpc.NodeRegistry
	pipe   *fakePipeline
	groups map[int]*commonv1.Group
}

func newCoordinator() *coordinator {
	c := &coordinator{groups: map[int]*commonv1.Group{}}
	repo := fakeRepo{g: fakeGroups{list: func() []*commonv1.Group {
		var out []*commonv1.Group
		// deliberately unsorted (map order): the registry gives no order guarantee
		for _, g := range c.groups {
			out = append(out, g)
		}
		return out
	}}}
	c.sel = node.NewRoundRobinSelector("verif", repo)
	c.pipe = &fakePipeline{}
	// the liaison's registry: node events reach the selector through it, Locate answers writes
	c.reg = lgrpc.NewClusterNodeRegistry(data.TopicMeasureWrite, c.pipe, c.sel)
	return c
}

func (c *coordinator) apply(ev map[string]any) {
	handler := c.sel.(schema.EventHandler)
	switch vlib.Str(ev, "op") {
	case "group":
		g := groupSpec(vlib.Int(ev, "g"), vlib.Int(ev, "shards"), vlib.Int(ev, "replicas"))
		c.groups[vlib.Int(ev, "g")] = g
		handler.OnAddOrUpdate(schema.Metadata{TypeMeta: schema.TypeMeta{Kind: schema.KindGroup, Name: g.Metadata.Name}, Spec: g})
	case "delgroup":
		gi := vlib.Int(ev, "g")
		g := c.groups[gi]
		if g == nil {
			g = groupSpec(gi, 1, 0)
		}
		delete(c.groups, gi)
		handler.OnDelete(schema.Metadata{TypeMeta: schema.TypeMeta{Kind: schema.KindGroup, Name: g.Metadata.Name}, Spec: g})
	case "reinit":
		c.sel.OnInit([]schema.Kind{schema.KindGroup})
	case "addnode":
		nd := nodeSpec(vlib.Int(ev, "node"))
		for _, h := range c.pipe.handlers {
			h.OnAddOrUpdate(schema.Metadata{TypeMeta: schema.TypeMeta{Kind: schema.KindNode, Name: nd.Metadata.Name}, Spec: nd})
		}
	case "delnode":
		nd := nodeSpec(vlib.Int(ev, "node"))
		for _, h := range c.pipe.handlers {
			h.OnDelete(schema.Metadata{TypeMeta: schema.TypeMeta{Kind: schema.KindNode, Name: nd.Metadata.Name}, Spec: nd})
		}
	}
}

func replay(in string, res *vlib.Result) {
	bs, err := vlib.ReadBehaviours(in)
	if err != nil {
		res.Inconclusive = append(res.Inconclusive, err.Error())
		return
	}
	for _, b := range bs {
		vlib.Progress(b.ID)
		res.Behaviours++
		c := newCoordinator()
		live := map[int]bool{}
		for i, st := range b.States {
			if i == 0 {
				continue
			}
			res.Steps++
			ev := vlib.Map(st, "last")
			op := vlib.Str(ev, "op")
			sig := "pick-after-" + op
			if op == "addnode" && live[vlib.Int(ev, "node")] {
				sig += "-known"
				res.Inc("repeated_addnode")
			}
			if op == "delnode" && !live[vlib.Int(ev, "node")] {
				sig += "-unknown"
			}
			if op == "addnode" {
				live[vlib.Int(ev, "node")] = true
			}
			if op == "delnode" {
				delete(live, vlib.Int(ev, "node"))
			}
			res.Inc("op_" + op)
			c.apply(ev)
			// projection: Pick for every (g, s, r) the spec knows, plus "no node" when the spec has none
			want := map[[3]int]int{}
			for _, a := range vlib.List(st, "assign") {
				r := vlib.Rec(a)
				want[[3]int{vlib.Int(r, "g"), vlib.Int(r, "s"), vlib.Int(r, "r")}] = vlib.Int(r, "node")
			}
			bad := false
			for _, gv := range vlib.List(st, "gset") {
				g := vlib.Rec(gv)
				for s := 0; s < vlib.Int(g, "shards") && !bad; s++ {
					for r := 0; r <= vlib.Int(g, "replicas"); r++ {
						got, err := c.reg.Locate(groupNames[vlib.Int(g, "g")], "", uint32(s), uint32(r))
						w, ok := want[[3]int{vlib.Int(g, "g"), s, r}]
						res.Inc("picks_compared")
						switch {
						case !ok && err == nil:
							res.Violate(b.ID, i, sig, "Pick(%s,%d,%d)=%s but no node is live in the spec", groupNames[vlib.Int(g, "g")], s, r, got)
							bad = true
						case ok && err != nil:
							res.Violate(b.ID, i, sig, "Pick(%s,%d,%d) failed (%v), spec assigns %s", groupNames[vlib.Int(g, "g")], s, r, err, nodeNames[w])
							bad = true
						case ok && indexOf(nodeNames, got) != w:
							res.Violate(b.ID, i, sig, "Pick(%s,%d,%d)=%s, spec assigns %s (live nodes %v)", groupNames[vlib.Int(g, "g")], s, r, got, nodeNames[w], vlib.List(st, "nset"))
							bad = true
						}
						if bad {
							break
						}
					}
				}
				if bad {
					break
				}
			}
			if bad {
				break
			}
		}
	}
}

// ---- route trace ----

var alphabet = []string{"", "a", "|", "\\", "a|b", "svc", "\x00", "ü"}

func tagStr(s string) *modelv1.TagValue {
	return &modelv1.TagValue{Value: &modelv1.TagValue_Str{Str: &modelv1.Str{Value: s}}}
}

func tagInt(v int64) *modelv1.TagValue {
	return &modelv1.TagValue{Value: &modelv1.TagValue_Int{Int: &modelv1.Int{Value: v}}}
}

func route(coord string, n int, seed int64, tracePath string, res *vlib.Result) {
	f, err := os.Create(tracePath)
	if err != nil {
		res.Inconclusive = append(res.Inconclusive, err.Error())
		return
	}
	defer f.Close()
	enc := json.NewEncoder(f)
	rnd := rand.New(rand.NewSource(seed)) // the SAME workload for every coordinator process
	families := []*databasev1.TagFamilySpec{
		{Name: "default", Tags: []*databasev1.TagSpec{
			{Name: "e1", Type: databasev1.TagType_TAG_TYPE_STRING},
			{Name: "x", Type: databasev1.TagType_TAG_TYPE_STRING},
			{Name: "e2", Type: databasev1.TagType_TAG_TYPE_INT},
		}},
		{Name: "extra", Tags: []*databasev1.TagSpec{{Name: "y", Type: databasev1.TagType_TAG_TYPE_INT}}},
	}
	loc := partition.NewEntityLocator(families, &databasev1.Entity{TagNames: []string{"e1", "e2"}}, 1)
	ints := []int64{0, 1, -1, 9223372036854775807, -9223372036854775808, 42}
	subjects := []string{"m1", "m2"}
	for i := 0; i < n; i++ {
		e1 := rnd.Intn(len(alphabet))
		e2 := rnd.Intn(len(ints))
		subj := rnd.Intn(len(subjects))
		shards := 1 + rnd.Intn(5)
		x := rnd.Intn(len(alphabet)) // non-entity tags: must not influence the shard
		y := rnd.Int63()
		tf := []*modelv1.TagFamilyForWrite{
			{Tags: []*modelv1.TagValue{tagStr(alphabet[e1]), tagStr(alphabet[x]), tagInt(ints[e2])}},
			{Tags: []*modelv1.TagValue{tagInt(y)}},
		}
		_, sid, err := loc.Locate(subjects[subj], tf, uint32(shards))
		ev := map[string]any{"event": "Route", "coord": coord, "subject": subj, "e1": e1, "e2": e2, "shards": shards, "other": x}
		if err != nil {
			ev["shard"] = -1
		} else {
			ev["shard"] = int(sid)
		}
		_ = enc.Encode(ev)
		res.Steps++
		// trace-id routing
		tid := fmt.Sprintf("trace-%d-%s", e2, alphabet[e1])
		ts := partition.TraceShardID(tid, uint32(shards))
		_ = enc.Encode(map[string]any{"event": "RouteTrace", "coord": coord, "tid": e1*10 + e2, "shards": shards, "shard": int(ts)})
		res.Steps++
	}
	res.Behaviours = 1
}

func main() {
	mode := flag.String("mode", "replay", "replay|route")
	in := flag.String("in", "", "behaviour file")
	out := flag.String("out", "", "result file")
	coord := flag.String("coord", "A", "coordinator name (route mode)")
	n := flag.Int("n", 300, "number of routed writes")
	trace := flag.String("trace", "", "trace output (route mode)")
	wseed := flag.Int64("wseed", 1, "workload seed (route mode)")
	flag.Parse()
	res := vlib.NewResult()
	switch *mode {
	case "replay":
		replay(*in, res)
	case "route":
		route(*coord, *n, *wseed, *trace, res)
	}
	res.Write(*out)
}
