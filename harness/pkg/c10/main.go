// Command c10 binds spec/Aggregation.tla to the real aggregation code.
//
//	-mode agg  -in behaviours.ndjson   every TLC state (a multiset of rows + a partition over shards) is built up
//	                                   step by step on the real objects and compared with the spec's obs:
//	    pkg   pkg/query/aggregation  Map.In/Partial/Val, PartialToFieldValues/FieldValuesToPartial, Reduce.Combine/Val
//	          (int64 and float64 instantiations)
//	    plan  pkg/query/logical/measure  the row plans exactly as the servers build them: Analyze(..., emitPartial)
//	          per data node (scan -> groupBy -> aggregation[map]), DistributedAnalyze on the coordinator
//	          (distributedPlan incl. deduplicateAggregatedDataPointsWithShard -> groupBy -> aggregation[reduce] ->
//	          top -> limit).  Only the storage scan (MeasureExecutionContext.Query) and the transport
//	          (Broadcast) are replaced: a "node" is a real plan over the rows of one shard replica.
//	    vec   pkg/query/vectorized/measure  BatchAggregation All/Map/Reduce, frame.Encode, ReduceRawFrames,
//	          ApplyTopToReduce
//	-mode ord  -in behaviours.ndjson   family "ord": the measure's entity is (k1,k2), every TLC state is one ARRIVAL order of
//	                                   points; GROUP BY k1 / k2 / (k1,k2) with the method Analyze picks over the scan order
//	                                   it asks the engine for, client pages (limit, offset) and TOP-n over the groups, on the
//	                                   stand-alone row plan and through DistributedAnalyze with data nodes that run the
//	                                   request they are sent (limit included), as measureInternalQueryProcessor.Rev does
//	-mode top  -in behaviours.ndjson   TopQueue (measure_top.go) step by step, the top plan, the columnar BatchTop
//	-mode extremes -n N                int64 extremes: partition invariance under a wrap-around-aware reference
package main

import (
	"context"
	"flag"
	"fmt"
	"math"
	"math/big"
	"math/rand"
	"sort"
	"strings"
	"sync"
	"time"

	"google.golang.org/protobuf/proto"
	"google.golang.org/protobuf/types/known/timestamppb"

	"github.com/apache/skywalking-banyandb/api/common"
	commonv1 "github.com/apache/skywalking-banyandb/api/proto/banyandb/common/v1"
	databasev1 "github.com/apache/skywalking-banyandb/api/proto/banyandb/database/v1"
	measurev1 "github.com/apache/skywalking-banyandb/api/proto/banyandb/measure/v1"
	modelv1 "github.com/apache/skywalking-banyandb/api/proto/banyandb/model/v1"
	"github.com/apache/skywalking-banyandb/banyand/verifharness/vlib"
	"github.com/apache/skywalking-banyandb/pkg/bus"
	"github.com/apache/skywalking-banyandb/pkg/index"
	"github.com/apache/skywalking-banyandb/pkg/query/aggregation"
	"github.com/apache/skywalking-banyandb/pkg/query/executor"
	"github.com/apache/skywalking-banyandb/pkg/query/logical"
	lm "github.com/apache/skywalking-banyandb/pkg/query/logical/measure"
	"github.com/apache/skywalking-banyandb/pkg/query/model"
	"github.com/apache/skywalking-banyandb/pkg/query/vectorized"
	vm "github.com/apache/skywalking-banyandb/pkg/query/vectorized/measure"
	"github.com/apache/skywalking-banyandb/pkg/query/vectorized/measure/frame"
)

var (
	fnames = []string{"SUM", "COUNT", "MIN", "MAX", "MEAN"}
	fmodel = []modelv1.AggregationFunction{
		modelv1.AggregationFunction_AGGREGATION_FUNCTION_SUM,
		modelv1.AggregationFunction_AGGREGATION_FUNCTION_COUNT,
		modelv1.AggregationFunction_AGGREGATION_FUNCTION_MIN,
		modelv1.AggregationFunction_AGGREGATION_FUNCTION_MAX,
		modelv1.AggregationFunction_AGGREGATION_FUNCTION_MEAN,
	}
	fvec = []vm.AggFunc{vm.AggSum, vm.AggCount, vm.AggMin, vm.AggMax, vm.AggMean}
)

const (
	fSUM = iota
	fCOUNT
	fMIN
	fMAX
	fMEAN
)

type config struct {
	k1, k2         []string
	maxRep         int
	intMax, intMin int64
	layers         map[string]bool
	seed           int64
	ranks          int // family "ord": rankings tried per client page (0: all)
}

var cfg config

// a row of the model, concretised
type row struct {
	id     int
	v      int64
	s      int
	g1, g2 int // tokens 1..
}

func (r row) key() [2]int { return [2]int{r.g1, r.g2} }

// the model's IntMax / IntMin stand for the sentinels of the 64-bit code
func sentI(x int64) int64 {
	switch x {
	case cfg.intMax:
		return math.MaxInt64
	case cfg.intMin:
		return math.MinInt64
	}
	return x
}

func sentF(x int64) float64 {
	switch x {
	case cfg.intMax:
		return math.MaxFloat64
	case cfg.intMin:
		return -math.MaxFloat64
	}
	return float64(x)
}

// ---------------------------------------------------------------------------------------------
// result with a lock (behaviours are replayed in parallel)

type sink struct {
	res *vlib.Result
	mu  sync.Mutex
}

func (s *sink) violate(b, step int, sig, format string, a ...any) {
	s.mu.Lock()
	defer s.mu.Unlock()
	// keep at most 3 examples per signature so that every signature is represented
	n := 0
	for _, v := range s.res.Violations {
		if v.Signature == sig {
			n++
		}
	}
	s.res.Stats["violations_total"]++
	s.res.Stats["sig:"+sig]++
	if n < 3 && len(s.res.Violations) < 200 {
		s.res.Violations = append(s.res.Violations, vlib.Violation{Behaviour: b, Step: step, Signature: sig, Detail: fmt.Sprintf(format, a...)})
	}
}

func (s *sink) inc(k string) { s.add(k, 1) }

func (s *sink) add(k string, n int) {
	s.mu.Lock()
	s.res.Stats[k] += n
	s.mu.Unlock()
}

func (s *sink) inconclusive(msg string) {
	s.mu.Lock()
	if len(s.res.Inconclusive) < 20 {
		s.res.Inconclusive = append(s.res.Inconclusive, msg)
	}
	s.mu.Unlock()
}

// ---------------------------------------------------------------------------------------------
// pkg/query/aggregation

type mapsOf[N aggregation.Number] [5]aggregation.Map[N]

func newMaps[N aggregation.Number]() mapsOf[N] {
	var m mapsOf[N]
	for i := range m {
		x, err := aggregation.NewMap[N](fmodel[i])
		if err != nil {
			panic(err)
		}
		m[i] = x
	}
	return m
}

type accs struct {
	shardI  map[int]mapsOf[int64]
	shardF  map[int]mapsOf[float64]
	groupI  map[[3]int]mapsOf[int64]
	directI mapsOf[int64]
	directF mapsOf[float64]
	rows    []row
}

func newAccs() *accs {
	return &accs{
		shardI: map[int]mapsOf[int64]{}, shardF: map[int]mapsOf[float64]{}, groupI: map[[3]int]mapsOf[int64]{},
		directI: newMaps[int64](), directF: newMaps[float64](),
	}
}

func (a *accs) shard(s int) (mapsOf[int64], mapsOf[float64]) {
	if _, ok := a.shardI[s]; !ok {
		a.shardI[s] = newMaps[int64]()
		a.shardF[s] = newMaps[float64]()
	}
	return a.shardI[s], a.shardF[s]
}

func (a *accs) add(r row) {
	a.rows = append(a.rows, r)
	si, sf := a.shard(r.s)
	gk := [3]int{r.s, r.g1, r.g2}
	if _, ok := a.groupI[gk]; !ok {
		a.groupI[gk] = newMaps[int64]()
	}
	for f := 0; f < 5; f++ {
		si[f].In(r.v)
		sf[f].In(float64(r.v))
		a.groupI[gk][f].In(r.v)
		a.directI[f].In(r.v)
		a.directF[f].In(float64(r.v))
	}
}

// through the wire form of a partial, as the data node sends and the coordinator reads it
func wire[N aggregation.Number](f int, p aggregation.Partial[N]) (aggregation.Partial[N], error) {
	fvs, err := aggregation.PartialToFieldValues(fmodel[f], p)
	if err != nil {
		return p, err
	}
	// serialised and parsed again
	for i, fv := range fvs {
		data, merr := proto.Marshal(fv)
		if merr != nil {
			return p, merr
		}
		back := &modelv1.FieldValue{}
		if uerr := proto.Unmarshal(data, back); uerr != nil {
			return p, uerr
		}
		fvs[i] = back
	}
	return aggregation.FieldValuesToPartial[N](fmodel[f], fvs)
}

func reduceVal[N aggregation.Number](f int, ps []aggregation.Partial[N], order []int) (N, error) {
	r, err := aggregation.NewReduce[N](fmodel[f])
	if err != nil {
		var z N
		return z, err
	}
	for _, i := range order {
		w, werr := wire(f, ps[i])
		if werr != nil {
			var z N
			return z, werr
		}
		r.Combine(w)
	}
	return r.Val(), nil
}

func permutations(n int) [][]int {
	if n > 4 {
		n = 4
	}
	var out [][]int
	var rec func(cur []int, used []bool)
	rec = func(cur []int, used []bool) {
		if len(cur) == n {
			out = append(out, append([]int(nil), cur...))
			return
		}
		for i := 0; i < n; i++ {
			if !used[i] {
				used[i] = true
				rec(append(cur, i), used)
				used[i] = false
			}
		}
	}
	rec(nil, make([]bool, n))
	return out
}

// expectation of one aggregated value set (spec Result)
type expect struct {
	r      [5]int64
	lo, hi int64
	some   bool
}

func parseResult(v any) expect {
	m := vlib.Rec(v)
	e := expect{some: vlib.Bool(m, "some")}
	if !e.some {
		return e
	}
	for i, x := range vlib.List(m, "r") {
		e.r[i] = int64(vlib.AsInt(x))
	}
	e.lo, e.hi = int64(vlib.Int(m, "lo")), int64(vlib.Int(m, "hi"))
	return e
}

func (e expect) okInt(f int, got int64) bool {
	if f == fMEAN {
		return e.lo <= got && got <= e.hi
	}
	return got == e.r[f]
}

// the float64 instantiation over the same (integral) values: sums, counts and extrema are exact, the mean is the
// correctly rounded quotient of two exactly representable numbers
func (e expect) wantFloat(f int) float64 {
	if f == fMEAN {
		return float64(e.r[fSUM]) / float64(e.r[fCOUNT])
	}
	return float64(e.r[f])
}

type pkgVerdict struct {
	wrongI [5]bool
	gotI   [5]int64
	wrongF [5]bool
	gotF   [5]float64
}

func pairOf(p any) (int64, int64) {
	l, _ := p.([]any)
	if len(l) != 2 {
		return 0, 0
	}
	return int64(vlib.AsInt(l[0])), int64(vlib.AsInt(l[1]))
}

func checkPkg(sk *sink, b, step int, a *accs, obs map[string]any) pkgVerdict {
	var pv pkgVerdict
	sres := parseResult(obs["sres"])
	// 1. per-shard partials (empty shards: the sentinels)
	var shards []int
	for _, sp := range vlib.List(obs, "sparts") {
		m := vlib.Rec(sp)
		s := vlib.Int(m, "s")
		shards = append(shards, s)
		si, sf := a.shard(s)
		ps := vlib.List(m, "p")
		for f := 0; f < 5; f++ {
			wv, wc := pairOf(ps[f])
			gp := si[f].Partial()
			sk.inc("pkg_partials_compared")
			if gp.Value != sentI(wv) || gp.Count != wc {
				sk.violate(b, step, "pkg-map-partial-"+fnames[f], "shard %d rows %v: Map[int64].Partial()=(%d,%d), spec MapPartial=(%d,%d)", s, a.rows, gp.Value, gp.Count, sentI(wv), wc)
			}
			gf := sf[f].Partial()
			if gf.Value != sentF(wv) || gf.Count != float64(wc) {
				sk.violate(b, step, "pkg-map-partial-float-"+fnames[f], "shard %d rows %v: Map[float64].Partial()=(%v,%v), spec MapPartial=(%v,%d)", s, a.rows, gf.Value, gf.Count, sentF(wv), wc)
			}
		}
	}
	sort.Ints(shards)
	for _, gp := range vlib.List(obs, "gparts") {
		m := vlib.Rec(gp)
		k := [3]int{vlib.Int(m, "s"), vlib.Int(m, "g1"), vlib.Int(m, "g2")}
		ps := vlib.List(m, "p")
		gm, ok := a.groupI[k]
		for f := 0; f < 5; f++ {
			wv, wc := pairOf(ps[f])
			sk.inc("pkg_partials_compared")
			if !ok {
				sk.violate(b, step, "pkg-map-partial-"+fnames[f], "no accumulator for (shard,group) %v", k)
				continue
			}
			g := gm[f].Partial()
			if g.Value != sentI(wv) || g.Count != wc {
				sk.violate(b, step, "pkg-map-partial-"+fnames[f], "(shard,g1,g2) %v rows %v: Partial()=(%d,%d), spec (%d,%d)", k, a.rows, g.Value, g.Count, sentI(wv), wc)
			}
		}
	}
	if !sres.some {
		// nothing selected: COUNT and SUM of nothing are 0 in the accumulators; MIN/MAX/MEAN have no value
		if a.directI[fSUM].Val() != 0 || a.directI[fCOUNT].Val() != 0 {
			sk.violate(b, step, "pkg-map-val-empty", "empty input: SUM=%d COUNT=%d", a.directI[fSUM].Val(), a.directI[fCOUNT].Val())
		}
		return pv
	}
	// 2. everything in one place
	for f := 0; f < 5; f++ {
		got := a.directI[f].Val()
		sk.inc("pkg_vals_compared")
		if !sres.okInt(f, got) {
			pv.wrongI[f], pv.gotI[f] = true, got
			sk.violate(b, step, "pkg-map-val-"+fnames[f], "values %v: Map[int64](%s).Val()=%d, reference %d (acceptable %d..%d)", vals(a.rows), fnames[f], got, sres.r[f], sres.lo, sres.hi)
		} else if f == fMEAN && got != sres.r[f] {
			sk.inc("mean_rounding_differs_from_transcription")
		}
		gf := a.directF[f].Val()
		if gf != sres.wantFloat(f) {
			pv.wrongF[f], pv.gotF[f] = true, gf
			sk.violate(b, step, "pkg-map-val-float-"+fnames[f], "values %v: Map[float64](%s).Val()=%v, reference %v", vals(a.rows), fnames[f], gf, sres.wantFloat(f))
		}
	}
	// 3. partials of all shards (empty ones too, then without them) reduced in every order
	for _, withEmpty := range []bool{true, false} {
		var pi []aggregation.Partial[int64]
		var pf []aggregation.Partial[float64]
		for f := 0; f < 5; f++ {
			pi, pf = pi[:0], pf[:0]
			for _, s := range shards {
				n := 0
				for _, r := range a.rows {
					if r.s == s {
						n++
					}
				}
				if n == 0 && !withEmpty {
					continue
				}
				si, sf := a.shard(s)
				pi = append(pi, si[f].Partial())
				pf = append(pf, sf[f].Partial())
			}
			for _, order := range permutations(len(pi)) {
				got, err := reduceVal(f, pi, order)
				sk.inc("pkg_reductions")
				if err != nil {
					sk.violate(b, step, "pkg-reduce-error", "%v", err)
					continue
				}
				if !sres.okInt(f, got) {
					if pv.wrongI[f] && got == pv.gotI[f] {
						sk.inc("propagated_mismatches")
					} else {
						sk.violate(b, step, "pkg-reduce-"+fnames[f], "rows %v: Reduce over shard partials %v in order %v (empty shards included: %v) = %d, reference %d", a.rows, pi, order, withEmpty, got, sres.r[f])
					}
				}
				gotF, err := reduceVal(f, pf, order)
				if err != nil {
					sk.violate(b, step, "pkg-reduce-error", "%v", err)
					continue
				}
				if gotF != sres.wantFloat(f) {
					if pv.wrongF[f] && gotF == pv.gotF[f] {
						sk.inc("propagated_mismatches")
					} else {
						sk.violate(b, step, "pkg-reduce-float-"+fnames[f], "rows %v: Reduce[float64] over %v order %v = %v, reference %v", a.rows, pf, order, gotF, sres.wantFloat(f))
					}
				}
			}
		}
	}
	return pv
}

func vals(rows []row) []int64 {
	out := make([]int64, len(rows))
	for i, r := range rows {
		out[i] = r.v
	}
	return out
}

// ---------------------------------------------------------------------------------------------
// the row plans

func measureSchema(float, entityKeys bool) *databasev1.Measure {
	entity := []string{"id"}
	if entityKeys { // group-by (k1,k2) then equals the entity: the plans group by sorting (groupSortIterator)
		entity = []string{"k1", "k2"}
	}
	ft := databasev1.FieldType_FIELD_TYPE_INT
	if float {
		ft = databasev1.FieldType_FIELD_TYPE_FLOAT
	}
	return &databasev1.Measure{
		Metadata: &commonv1.Metadata{Name: "m", Group: "g"},
		TagFamilies: []*databasev1.TagFamilySpec{{Name: "default", Tags: []*databasev1.TagSpec{
			{Name: "id", Type: databasev1.TagType_TAG_TYPE_STRING},
			{Name: "k1", Type: databasev1.TagType_TAG_TYPE_STRING},
			{Name: "k2", Type: databasev1.TagType_TAG_TYPE_STRING},
		}}},
		Fields: []*databasev1.FieldSpec{{Name: "v", FieldType: ft,
			EncodingMethod: databasev1.EncodingMethod_ENCODING_METHOD_GORILLA, CompressionMethod: databasev1.CompressionMethod_COMPRESSION_METHOD_ZSTD}},
		Entity: &databasev1.Entity{TagNames: entity},
	}
}

func strTag(s string) *modelv1.TagValue {
	return &modelv1.TagValue{Value: &modelv1.TagValue_Str{Str: &modelv1.Str{Value: s}}}
}

func fieldVal(v int64, float bool) *modelv1.FieldValue {
	if float {
		return &modelv1.FieldValue{Value: &modelv1.FieldValue_Float{Float: &modelv1.Float{Value: float64(v)}}}
	}
	return &modelv1.FieldValue{Value: &modelv1.FieldValue_Int{Int: &modelv1.Int{Value: v}}}
}

// storage stand-in.  Entity (id): every row is one series with one point.  Entity (k1,k2): the rows with the same
// (k1,k2) are the points of one series.  The scan delivers what the engines deliver (banyand/measure queryResult.Less):
// time order (= arrival order) unless the plan asks for index.OrderByTypeSeries, then series by series in the order
// of the series-index answer - taken to be the creation order (first arrival), NOT an order of the entity values -
// and by time inside a series.
type fakeEC struct {
	rows       []row
	float      bool
	entityKeys bool
}

func (e *fakeEC) seriesOf(r row) int {
	if !e.entityKeys {
		return r.id
	}
	for _, x := range e.rows {
		if x.g1 == r.g1 && x.g2 == r.g2 {
			return x.id // the series is named after its first point
		}
	}
	return r.id
}

// spec BySeries
func bySeries(rows []row) []row {
	out := make([]row, 0, len(rows))
	done := map[[2]int]bool{}
	for _, r := range rows {
		if done[r.key()] {
			continue
		}
		done[r.key()] = true
		for _, x := range rows {
			if x.key() == r.key() {
				out = append(out, x)
			}
		}
	}
	return out
}

func (e *fakeEC) Query(_ context.Context, opts model.MeasureQueryOptions) (model.MeasureQueryResult, error) {
	if len(e.rows) == 0 {
		return nil, nil // the engines return a nil result for "nothing found"
	}
	rows := e.rows
	if opts.Order != nil && opts.Order.Type == index.OrderByTypeSeries && e.entityKeys {
		rows = bySeries(rows)
	}
	return &fakeResult{ec: e, rows: rows, float: e.float}, nil
}

type fakeResult struct {
	ec    *fakeEC
	rows  []row
	i     int
	float bool
}

func (r *fakeResult) Pull() *model.MeasureResult {
	if r.i >= len(r.rows) {
		return nil
	}
	x := r.rows[r.i]
	r.i++
	return &model.MeasureResult{
		SID:        common.SeriesID(r.ec.seriesOf(x) + 1),
		Timestamps: []int64{int64(1700000000+x.id) * int64(time.Second)},
		Versions:   []int64{1},
		ShardIDs:   []common.ShardID{common.ShardID(x.s)},
		TagFamilies: []model.TagFamily{{Name: "default", Tags: []model.Tag{
			{Name: "id", Values: []*modelv1.TagValue{strTag(fmt.Sprintf("r%d", x.id))}},
			{Name: "k1", Values: []*modelv1.TagValue{strTag(cfg.k1[x.g1-1])}},
			{Name: "k2", Values: []*modelv1.TagValue{strTag(cfg.k2[x.g2-1])}},
		}}},
		Fields: []model.Field{{Name: "v", Values: []*modelv1.FieldValue{fieldVal(x.v, r.float)}}},
	}
}

func (r *fakeResult) Release() {}

var timeRange = &modelv1.TimeRange{Begin: timestamppb.New(time.Unix(1600000000, 0)), End: timestamppb.New(time.Unix(1800000000, 0))}

type query struct {
	by      []string // group-by tags, nil: (k1,k2)
	f       int      // aggregation function index, -1 none
	grouped bool
	topN    int // 0 none
	bottom  bool
	withID  bool
	limit   uint32 // 0: not set by the client (the servers default to 100)
	offset  uint32
}

func (q query) request() *measurev1.QueryRequest {
	tags := []string{"k1", "k2"}
	if q.withID {
		tags = []string{"id", "k1", "k2"}
	}
	req := &measurev1.QueryRequest{
		Groups: []string{"g"}, Name: "m", TimeRange: timeRange,
		TagProjection:   &modelv1.TagProjection{TagFamilies: []*modelv1.TagProjection_TagFamily{{Name: "default", Tags: tags}}},
		FieldProjection: &measurev1.QueryRequest_FieldProjection{Names: []string{"v"}},
	}
	req.Limit, req.Offset = q.limit, q.offset
	if q.grouped {
		by := q.by
		if by == nil {
			by = []string{"k1", "k2"}
		}
		req.GroupBy = &measurev1.QueryRequest_GroupBy{
			TagProjection: &modelv1.TagProjection{TagFamilies: []*modelv1.TagProjection_TagFamily{{Name: "default", Tags: by}}},
			FieldName:     "v",
		}
	}
	if q.f >= 0 {
		req.Agg = &measurev1.QueryRequest_Aggregation{Function: fmodel[q.f], FieldName: "v"}
	}
	if q.topN > 0 {
		srt := modelv1.Sort_SORT_DESC
		if q.bottom {
			srt = modelv1.Sort_SORT_ASC
		}
		req.Top = &measurev1.QueryRequest_Top{Number: int32(q.topN), FieldName: "v", FieldValueSort: srt}
	}
	return req
}

// a data node (or the stand-alone server): banyand/query/processor.go executeMeasurePlan + collectInternalDataPoints.
// The request is planned as it is received - its limit / offset included (measureInternalQueryProcessor.Rev hands
// internalRequest.Request to Analyze unchanged).
func runNode(req *measurev1.QueryRequest, emitPartial bool, rows []row, float, entityKeys bool) ([]*measurev1.InternalDataPoint, error) {
	out, _, err := runNodePlan(req, emitPartial, rows, float, entityKeys)
	return out, err
}

func runNodePlan(req *measurev1.QueryRequest, emitPartial bool, rows []row, float, entityKeys bool) (out []*measurev1.InternalDataPoint, planStr string, err error) {
	defer func() {
		if r := recover(); r != nil {
			err = fmt.Errorf("panic: %v", r)
		}
	}()
	ms := measureSchema(float, entityKeys)
	s, err := lm.BuildSchema(ms, nil)
	if err != nil {
		return nil, "", err
	}
	plan, err := lm.Analyze(req, []*commonv1.Metadata{ms.Metadata}, []logical.Schema{s},
		[]executor.MeasureExecutionContext{&fakeEC{rows: rows, float: float, entityKeys: entityKeys}}, emitPartial)
	if err != nil {
		return nil, "", err
	}
	planStr = plan.String()
	it, err := plan.(executor.MeasureExecutable).Execute(context.Background())
	if err != nil {
		return nil, planStr, err
	}
	for it.Next() {
		cur := it.Current()
		if len(cur) > 0 {
			out = append(out, cur[0])
		}
	}
	return out, planStr, it.Close()
}

type future struct{ m bus.Message }

func (f future) Get() (bus.Message, error)      { return f.m, nil }
func (f future) GetAll() ([]bus.Message, error) { return []bus.Message{f.m}, nil }

// transport stand-in: Broadcast reaches the listed nodes; a node is (shard, replica)
type cluster struct {
	err        error
	cache      map[int][]byte // shard -> serialised response of a node holding that shard
	rowsOf     func(shard int) []row
	nodes      [][2]int
	float      bool
	entityKeys bool
	nodeCalls  int
	nodeLimits []uint32 // the limit / offset of the request every node was sent
	nodeOffset []uint32
	nodeSent   []int // data points in every node's answer
}

func (c *cluster) Broadcast(_ time.Duration, _ bus.Topic, msg bus.Message) ([]bus.Future, error) {
	ireq, ok := msg.Data().(*measurev1.InternalQueryRequest)
	if !ok {
		return nil, fmt.Errorf("unexpected broadcast payload %T", msg.Data())
	}
	var out []bus.Future
	for _, n := range c.nodes {
		c.nodeLimits = append(c.nodeLimits, ireq.Request.GetLimit())
		c.nodeOffset = append(c.nodeOffset, ireq.Request.GetOffset())
		data, ok := c.cache[n[0]]
		if !ok {
			dps, err := runNode(ireq.Request, ireq.AggReturnPartial, c.rowsOf(n[0]), c.float, c.entityKeys)
			if err != nil {
				c.err = err
				return nil, err
			}
			c.nodeCalls++
			data, err = proto.Marshal(&measurev1.InternalQueryResponse{DataPoints: dps})
			if err != nil {
				return nil, err
			}
			c.cache[n[0]] = data
		}
		resp := &measurev1.InternalQueryResponse{}
		if err := proto.Unmarshal(data, resp); err != nil {
			return nil, err
		}
		c.nodeSent = append(c.nodeSent, len(resp.DataPoints))
		out = append(out, future{m: bus.NewMessage(bus.MessageID(1), resp)})
	}
	return out, nil
}

func (c *cluster) TimeRange() *modelv1.TimeRange      { return timeRange }
func (c *cluster) NodeSelectors() map[string][]string { return nil }

// the coordinator: banyand/dquery/measure.go (row plan)
func runLiaison(req *measurev1.QueryRequest, c *cluster) (out []*measurev1.DataPoint, err error) {
	defer func() {
		if r := recover(); r != nil {
			err = fmt.Errorf("panic: %v", r)
		}
	}()
	s, err := lm.BuildSchema(measureSchema(c.float, c.entityKeys), nil)
	if err != nil {
		return nil, err
	}
	plan, err := lm.DistributedAnalyze(req, []logical.Schema{s}, 0)
	if err != nil {
		return nil, err
	}
	it, err := plan.(executor.MeasureExecutable).Execute(executor.WithDistributedExecutionContext(context.Background(), c))
	if err != nil {
		return nil, err
	}
	for it.Next() {
		cur := it.Current()
		if len(cur) > 0 {
			out = append(out, cur[0].GetDataPoint())
		}
	}
	return out, it.Close()
}

func tagOf(dp *measurev1.DataPoint, name string) string {
	for _, tf := range dp.GetTagFamilies() {
		for _, t := range tf.GetTags() {
			if t.GetKey() == name {
				return t.GetValue().GetStr().GetValue()
			}
		}
	}
	return ""
}

func fieldInt(dp *measurev1.DataPoint) (int64, bool) {
	for _, f := range dp.GetFields() {
		if f.GetName() == "v" {
			if _, ok := f.GetValue().GetValue().(*modelv1.FieldValue_Int); ok {
				return f.GetValue().GetInt().GetValue(), true
			}
		}
	}
	return 0, false
}

func fieldFloat(dp *measurev1.DataPoint) (float64, bool) {
	for _, f := range dp.GetFields() {
		if f.GetName() == "v" {
			if _, ok := f.GetValue().GetValue().(*modelv1.FieldValue_Float); ok {
				return f.GetValue().GetFloat().GetValue(), true
			}
		}
	}
	return 0, false
}

func dpsOf(idps []*measurev1.InternalDataPoint) []*measurev1.DataPoint {
	out := make([]*measurev1.DataPoint, len(idps))
	for i, x := range idps {
		out[i] = x.GetDataPoint()
	}
	return out
}

// all assignments shard -> number of replicas answering (1..maxRep)
func repConfigs(shards []int, maxRep int) [][]int {
	out := [][]int{{}}
	for range shards {
		var next [][]int
		for _, c := range out {
			for r := 1; r <= maxRep; r++ {
				next = append(next, append(append([]int(nil), c...), r))
			}
		}
		out = next
	}
	return out
}

// SUM, COUNT and MEAN change when an answer is counted twice: every replica assignment is tried.  MIN and MAX are
// idempotent: the single-replica assignment and one seeded assignment.
func repsFor(f int, float bool, reps [][]int, rnd *rand.Rand) [][]int {
	if float {
		return [][]int{reps[rnd.Intn(len(reps))]}
	}
	if f == fMIN || f == fMAX {
		return [][]int{reps[0], reps[rnd.Intn(len(reps))]}
	}
	return reps
}

func nodesOf(shards []int, rep []int, rnd *rand.Rand) [][2]int {
	var nodes [][2]int
	for i, s := range shards {
		for r := 0; r < rep[i]; r++ {
			nodes = append(nodes, [2]int{s, r})
		}
	}
	if rnd != nil { // the answers arrive in any order
		rnd.Shuffle(len(nodes), func(i, j int) { nodes[i], nodes[j] = nodes[j], nodes[i] })
	}
	return nodes
}

type groupExpect struct {
	g1, g2 int
	e      expect
}

func describe(dps []*measurev1.DataPoint) string {
	var sb strings.Builder
	for _, dp := range dps {
		if v, ok := fieldInt(dp); ok {
			fmt.Fprintf(&sb, "(%s,%s)=%d ", tagOf(dp, "k1"), tagOf(dp, "k2"), v)
		} else if v, ok := fieldFloat(dp); ok {
			fmt.Fprintf(&sb, "(%s,%s)=%v ", tagOf(dp, "k1"), tagOf(dp, "k2"), v)
		}
	}
	return sb.String()
}

// compares one scalar answer
func checkScalar(sk *sink, b, step int, sig string, pv pkgVerdict, f int, float bool, dps []*measurev1.DataPoint, e expect, ctx string) {
	sk.inc("plan_answers_compared")
	if !e.some {
		if len(dps) != 0 {
			sk.violate(b, step, sig+"-empty", "%s: nothing selected but %d data point(s) returned: %s", ctx, len(dps), describe(dps))
		}
		return
	}
	if len(dps) != 1 {
		sk.violate(b, step, sig+"-cardinality", "%s: %s without group-by returned %d data points, want 1", ctx, fnames[f], len(dps))
		return
	}
	if float {
		got, ok := fieldFloat(dps[0])
		if !ok || got != e.wantFloat(f) {
			if pv.wrongF[f] && got == pv.gotF[f] {
				sk.inc("propagated_mismatches")
				return
			}
			sk.violate(b, step, sig, "%s: %s (float field) = %v, reference %v", ctx, fnames[f], got, e.wantFloat(f))
		}
		return
	}
	got, ok := fieldInt(dps[0])
	if !ok || !e.okInt(f, got) {
		if pv.wrongI[f] && got == pv.gotI[f] {
			sk.inc("propagated_mismatches")
			return
		}
		sk.violate(b, step, sig, "%s: %s = %d, reference %d", ctx, fnames[f], got, e.r[f])
	}
}

func checkGrouped(sk *sink, b, step int, sig string, f int, dps []*measurev1.DataPoint, ges []groupExpect, ctx string) (ok bool) {
	sk.inc("plan_answers_compared")
	got := map[[2]string][]int64{}
	for _, dp := range dps {
		v, _ := fieldInt(dp)
		k := [2]string{tagOf(dp, "k1"), tagOf(dp, "k2")}
		got[k] = append(got[k], v)
	}
	if len(dps) < len(ges) {
		sk.violate(b, step, sig+"-groups-merged", "%s: %d distinct key tuples but %d groups returned: %s", ctx, len(ges), len(dps), describe(dps))
		return false
	}
	if len(dps) > len(ges) {
		sk.violate(b, step, sig+"-groups-split", "%s: %d distinct key tuples but %d groups returned: %s", ctx, len(ges), len(dps), describe(dps))
		return false
	}
	for _, ge := range ges {
		k := [2]string{cfg.k1[ge.g1-1], cfg.k2[ge.g2-1]}
		vs := got[k]
		if len(vs) != 1 {
			sk.violate(b, step, sig+"-groups-split", "%s: group %v returned %d times: %s", ctx, k, len(vs), describe(dps))
			return false
		}
		if !ge.e.okInt(f, vs[0]) {
			// the MEAN floor is reported at the package level; a grouped value that is exactly that floor is its echo
			if f == fMEAN && vs[0] == 1 && ge.e.hi < 1 {
				sk.inc("propagated_mismatches")
				continue
			}
			sk.violate(b, step, sig, "%s: %s of group %v = %d, reference %d: %s", ctx, fnames[f], k, vs[0], ge.e.r[f], describe(dps))
			return false
		}
	}
	return true
}

// TOP / BOTTOM n over the groups' SUM: the values in order, and every returned group really has that value
func checkGroupTop(sk *sink, b, step int, sig string, dps []*measurev1.DataPoint, want []int64, ges []groupExpect, ctx string) {
	sk.inc("plan_answers_compared")
	if len(dps) != len(want) {
		sk.violate(b, step, sig, "%s: %d rows returned, want values %v: %s", ctx, len(dps), want, describe(dps))
		return
	}
	seen := map[[2]string]bool{}
	for i, dp := range dps {
		v, _ := fieldInt(dp)
		k := [2]string{tagOf(dp, "k1"), tagOf(dp, "k2")}
		if v != want[i] {
			sk.violate(b, step, sig, "%s: position %d is %d, want values %v: %s", ctx, i, v, want, describe(dps))
			return
		}
		if seen[k] {
			sk.violate(b, step, sig, "%s: group %v returned twice: %s", ctx, k, describe(dps))
			return
		}
		seen[k] = true
		ok := false
		for _, ge := range ges {
			if cfg.k1[ge.g1-1] == k[0] && cfg.k2[ge.g2-1] == k[1] && ge.e.r[fSUM] == v {
				ok = true
			}
		}
		if !ok {
			sk.violate(b, step, sig, "%s: group %v does not have SUM %d: %s", ctx, k, v, describe(dps))
			return
		}
	}
}

func checkPlans(sk *sink, b, step int, a *accs, obs map[string]any, pv pkgVerdict, rnd *rand.Rand) {
	sres := parseResult(obs["sres"])
	var shards []int
	for _, sp := range vlib.List(obs, "sparts") {
		shards = append(shards, vlib.Int(vlib.Rec(sp), "s"))
	}
	sort.Ints(shards)
	rowsOf := func(s int) []row {
		var out []row
		for _, r := range a.rows {
			if r.s == s {
				out = append(out, r)
			}
		}
		return out
	}
	reps := repConfigs(shards, cfg.maxRep)
	ctxOf := func(nodes [][2]int) string {
		return fmt.Sprintf("rows %v, answers from (shard,replica) %v", a.rows, nodes)
	}
	fail := func(what string, err error) {
		sk.inconclusive(fmt.Sprintf("behaviour %d step %d: %s: %v", b, step, what, err))
	}
	// scalar aggregation: stand-alone and through the coordinator with every replica assignment
	for _, float := range []bool{false, true} {
		for f := 0; f < 5; f++ {
			q := query{f: f}
			idps, err := runNode(q.request(), false, a.rows, float, false)
			if err != nil {
				fail("stand-alone plan", err)
				return
			}
			sk.inc("plan_executions")
			checkScalar(sk, b, step, "plan-standalone-"+fnames[f], pv, f, float, dpsOf(idps), sres, fmt.Sprintf("stand-alone, rows %v", a.rows))
			cache := map[int][]byte{}
			for _, rep := range repsFor(f, float, reps, rnd) {
				c := &cluster{cache: cache, rowsOf: rowsOf, nodes: nodesOf(shards, rep, rnd), float: float}
				dps, err := runLiaison(q.request(), c)
				if err != nil {
					fail("distributed plan", err)
					return
				}
				sk.inc("plan_executions")
				sk.add("plan_executions", c.nodeCalls)
				// one signature for every function: the partials of different shards must all be counted
				checkScalar(sk, b, step, "plan-distributed-scalar", pv, f, float, dps, sres, ctxOf(c.nodes))
			}
		}
	}
	if _, ok := obs["gres"]; !ok {
		return
	}
	var ges []groupExpect
	for _, g := range vlib.List(obs, "gres") {
		m := vlib.Rec(g)
		ges = append(ges, groupExpect{g1: vlib.Int(m, "g1"), g2: vlib.Int(m, "g2"), e: parseResult(m["res"])})
	}
	groupsOK := true
	for f := 0; f < 5; f++ {
		q := query{f: f, grouped: true}
		idps, err := runNode(q.request(), false, a.rows, false, false)
		if err != nil {
			fail("stand-alone grouped plan", err)
			return
		}
		sk.inc("plan_executions")
		groupsOK = checkGrouped(sk, b, step, "plan-standalone-grouped", f, dpsOf(idps), ges, fmt.Sprintf("stand-alone group-by (k1,k2) %s, rows %v", fnames[f], a.rows)) && groupsOK
		cache := map[int][]byte{}
		for _, rep := range repsFor(f, false, reps, rnd) {
			c := &cluster{cache: cache, rowsOf: rowsOf, nodes: nodesOf(shards, rep, rnd)}
			dps, err := runLiaison(q.request(), c)
			if err != nil {
				fail("distributed grouped plan", err)
				return
			}
			sk.inc("plan_executions")
			sk.add("plan_executions", c.nodeCalls)
			groupsOK = checkGrouped(sk, b, step, "plan-distributed-grouped", f, dps, ges, "group-by (k1,k2) "+fnames[f]+", "+ctxOf(c.nodes)) && groupsOK
		}
		// the same when (k1,k2) is the entity: the data nodes group by sorting instead of hashing
		idps, err = runNode(q.request(), false, a.rows, false, true)
		if err != nil {
			fail("stand-alone grouped plan (entity keys)", err)
			return
		}
		sk.inc("plan_executions")
		groupsOK = checkGrouped(sk, b, step, "plan-standalone-grouped-by-entity", f, dpsOf(idps), ges, fmt.Sprintf("stand-alone group-by entity (k1,k2) %s, rows %v", fnames[f], a.rows)) && groupsOK
		ce := &cluster{cache: map[int][]byte{}, rowsOf: rowsOf, nodes: nodesOf(shards, reps[rnd.Intn(len(reps))], rnd), entityKeys: true}
		edps, err := runLiaison(q.request(), ce)
		if err != nil {
			fail("distributed grouped plan (entity keys)", err)
			return
		}
		sk.inc("plan_executions")
		sk.add("plan_executions", ce.nodeCalls)
		groupsOK = checkGrouped(sk, b, step, "plan-distributed-grouped-by-entity", f, edps, ges, "group-by entity (k1,k2) "+fnames[f]+", "+ctxOf(ce.nodes)) && groupsOK
	}
	if !groupsOK {
		return // a ranking over wrong groups only echoes the mismatch above
	}
	// TOP / BOTTOM n over the groups' SUM
	for _, t := range vlib.List(obs, "gtop") {
		m := vlib.Rec(t)
		q := query{f: fSUM, grouped: true, topN: vlib.Int(m, "n"), bottom: vlib.Str(m, "dir") == "bottom"}
		var want []int64
		for _, x := range vlib.List(m, "vals") {
			want = append(want, int64(vlib.AsInt(x)))
		}
		idps, err := runNode(q.request(), false, a.rows, false, false)
		if err != nil {
			fail("stand-alone top plan", err)
			return
		}
		sk.inc("plan_executions")
		checkGroupTop(sk, b, step, "plan-standalone-group-top", dpsOf(idps), want, ges, fmt.Sprintf("stand-alone %s %d of SUM by (k1,k2), rows %v", vlib.Str(m, "dir"), q.topN, a.rows))
		rep := reps[rnd.Intn(len(reps))]
		c := &cluster{cache: map[int][]byte{}, rowsOf: rowsOf, nodes: nodesOf(shards, rep, rnd)}
		dps, err := runLiaison(q.request(), c)
		if err != nil {
			fail("distributed top plan", err)
			return
		}
		sk.inc("plan_executions")
		sk.add("plan_executions", c.nodeCalls)
		checkGroupTop(sk, b, step, "plan-distributed-group-top", dps, want, ges, fmt.Sprintf("%s %d of SUM by (k1,k2), %s", vlib.Str(m, "dir"), q.topN, ctxOf(c.nodes)))
	}
}

// ---------------------------------------------------------------------------------------------
// family "ord": entity (k1,k2), arrival orders, GROUP BY on a part of the entity, client pages

type byExpect struct {
	name string // k1 | k2 | k1k2
	tags []string
	ges  []groupExpect // g1 / g2 = 0: the tag is not part of the key
}

// the group a returned row belongs to: only the group-by tags count (a row also carries the other projected tags of
// the group's first point)
func keyBy(dp *measurev1.DataPoint, by []string) [2]string {
	var k [2]string
	for _, t := range by {
		if t == "k1" {
			k[0] = tagOf(dp, "k1")
		} else {
			k[1] = tagOf(dp, "k2")
		}
	}
	return k
}

func (ge groupExpect) keyStr() [2]string {
	var k [2]string
	if ge.g1 > 0 {
		k[0] = cfg.k1[ge.g1-1]
	}
	if ge.g2 > 0 {
		k[1] = cfg.k2[ge.g2-1]
	}
	return k
}

func fmtKey(k [2]string, by []string) string {
	var parts []string
	for _, t := range by {
		if t == "k1" {
			parts = append(parts, "k1="+k[0])
		} else {
			parts = append(parts, "k2="+k[1])
		}
	}
	return "(" + strings.Join(parts, ",") + ")"
}

func fmtRows(rows []row) string {
	var sb strings.Builder
	sb.WriteString("[")
	for i, r := range rows {
		if i > 0 {
			sb.WriteString(" ")
		}
		fmt.Fprintf(&sb, "(%s,%s)@shard%d=%d", cfg.k1[r.g1-1], cfg.k2[r.g2-1], r.s, r.v)
	}
	sb.WriteString("]")
	return sb.String()
}

// n rows, every one a different group of the reference with the reference's value over ALL the rows of the group.
// n = len(ges) unless a client page cuts the answer (which groups a page without ranking holds is not specified).
func checkGroupPage(sk *sink, b, step int, sig string, f int, by []string, dps []*measurev1.DataPoint, ges []groupExpect, n int, ctxOf func() string) bool {
	sk.inc("plan_answers_compared")
	want := map[[2]string]groupExpect{}
	for _, ge := range ges {
		want[ge.keyStr()] = ge
	}
	seen := map[[2]string]int{}
	for _, dp := range dps {
		seen[keyBy(dp, by)]++
	}
	for _, dp := range dps {
		if k := keyBy(dp, by); seen[k] > 1 {
			sk.violate(b, step, sig+"-groups-split", "%s: group %s is returned %d times, each row with the aggregate of a part of its rows (%d distinct key tuples, %d rows returned): %s",
				ctxOf(), fmtKey(k, by), seen[k], len(ges), len(dps), describe(dps))
			return false
		}
	}
	if len(dps) != n {
		sk.violate(b, step, sig+"-cardinality", "%s: %d distinct key tuples, %d rows expected, %d returned: %s", ctxOf(), len(ges), n, len(dps), describe(dps))
		return false
	}
	for _, dp := range dps {
		k := keyBy(dp, by)
		ge, ok := want[k]
		if !ok {
			sk.violate(b, step, sig+"-unknown-group", "%s: group %s is not a key tuple of the selected rows: %s", ctxOf(), fmtKey(k, by), describe(dps))
			return false
		}
		v, isInt := fieldInt(dp)
		if !isInt || !ge.e.okInt(f, v) {
			if f == fMEAN && v == 1 && ge.e.hi < 1 { // the echo of the package-level MEAN floor
				sk.inc("propagated_mismatches")
				continue
			}
			sk.violate(b, step, sig, "%s: %s of group %s = %d, reference over all its rows %d (an aggregate of a part of the group's rows): %s",
				ctxOf(), fnames[f], fmtKey(k, by), v, ge.e.r[f], describe(dps))
			return false
		}
	}
	return true
}

// the values in rank order, every row a different group that really has that SUM
func checkGroupTopBy(sk *sink, b, step int, sig string, by []string, dps []*measurev1.DataPoint, want []int64, ges []groupExpect, ctxOf func() string) {
	sk.inc("plan_answers_compared")
	if len(dps) != len(want) {
		sk.violate(b, step, sig, "%s: %d rows returned, want values %v: %s", ctxOf(), len(dps), want, describe(dps))
		return
	}
	seen := map[[2]string]bool{}
	for i, dp := range dps {
		v, _ := fieldInt(dp)
		k := keyBy(dp, by)
		if v != want[i] {
			sk.violate(b, step, sig, "%s: position %d is %s = %d, want values %v (the groups' SUM over all their rows, ranked, then the page): %s", ctxOf(), i, fmtKey(k, by), v, want, describe(dps))
			return
		}
		if seen[k] {
			sk.violate(b, step, sig, "%s: group %s returned twice: %s", ctxOf(), fmtKey(k, by), describe(dps))
			return
		}
		seen[k] = true
		ok := false
		for _, ge := range ges {
			if ge.keyStr() == k && ge.e.r[fSUM] == v {
				ok = true
			}
		}
		if !ok {
			sk.violate(b, step, sig, "%s: group %s does not have SUM %d: %s", ctxOf(), fmtKey(k, by), v, describe(dps))
			return
		}
	}
}

func groupByMethod(planStr string) string {
	if i := strings.Index(planStr, "method="); i >= 0 {
		m := planStr[i+len("method="):]
		if j := strings.IndexAny(m, " ,;)"); j >= 0 {
			m = m[:j]
		}
		return m
	}
	return "none"
}

func distinctKeys(rows []row, by []string) int {
	set := map[[2]int]bool{}
	for _, r := range rows {
		var k [2]int
		for _, t := range by {
			if t == "k1" {
				k[0] = r.g1
			} else {
				k[1] = r.g2
			}
		}
		set[k] = true
	}
	return len(set)
}

// runs of equal key in the series-ordered scan (what a streaming group-by would see)
func runsOf(rows []row, by []string) int {
	n := 0
	var prev [2]int
	for i, r := range bySeries(rows) {
		var k [2]int
		for _, t := range by {
			if t == "k1" {
				k[0] = r.g1
			} else {
				k[1] = r.g2
			}
		}
		if i == 0 || k != prev {
			n++
		}
		prev = k
	}
	return n
}

func checkOrd(sk *sink, b, step int, rows []row, obs map[string]any, rnd *rand.Rand) {
	var shards []int
	for _, x := range vlib.List(obs, "shards") {
		shards = append(shards, vlib.AsInt(x))
	}
	sort.Ints(shards)
	rowsOf := func(s int) []row {
		var out []row
		for _, r := range rows {
			if r.s == s {
				out = append(out, r)
			}
		}
		return out
	}
	reps := repConfigs(shards, cfg.maxRep)
	fail := func(what string, err error) {
		sk.inconclusive(fmt.Sprintf("behaviour %d step %d: %s: %v", b, step, what, err))
	}
	bys := map[string]*byExpect{}
	var names []string
	for _, x := range vlib.List(obs, "bys") {
		m := vlib.Rec(x)
		be := &byExpect{name: vlib.Str(m, "by")}
		switch be.name {
		case "k1":
			be.tags = []string{"k1"}
		case "k2":
			be.tags = []string{"k2"}
		case "k1k2":
			be.tags = []string{"k1", "k2"}
		default:
			sk.inconclusive(fmt.Sprintf("behaviour %d step %d: unknown group-by %q", b, step, be.name))
			return
		}
		for _, g := range vlib.List(m, "groups") {
			gm := vlib.Rec(g)
			be.ges = append(be.ges, groupExpect{g1: vlib.Int(gm, "g1"), g2: vlib.Int(gm, "g2"), e: parseResult(gm["res"])})
		}
		if len(be.ges) != distinctKeys(rows, be.tags) {
			sk.inconclusive(fmt.Sprintf("behaviour %d step %d: spec has %d groups by %s, replayer %d", b, step, len(be.ges), be.name, distinctKeys(rows, be.tags)))
			return
		}
		bys[be.name] = be
		names = append(names, be.name)
	}
	sort.Strings(names)
	arrival := fmtRows(rows)
	distributed := func(q query) ([]*measurev1.DataPoint, *cluster, error) {
		c := &cluster{cache: map[int][]byte{}, rowsOf: rowsOf, nodes: nodesOf(shards, reps[rnd.Intn(len(reps))], rnd), entityKeys: true}
		dps, err := runLiaison(q.request(), c)
		sk.inc("plan_executions")
		sk.add("plan_executions", c.nodeCalls)
		unb := 0
		for i, l := range c.nodeLimits {
			if l == math.MaxUint32 && c.nodeOffset[i] == 0 {
				unb++
			}
		}
		sk.add("ord_node_requests_unbounded", unb)
		sk.add("ord_node_requests_bounded", len(c.nodeLimits)-unb)
		return dps, c, err
	}
	ctxDist := func(what string, c *cluster) func() string {
		return func() string {
			return fmt.Sprintf("%s, entity (k1,k2), arrival order %s, answers from (shard,replica) %v; the node requests carried limit %v offset %v and were answered with %v partial(s)",
				what, arrival, c.nodes, c.nodeLimits, c.nodeOffset, c.nodeSent)
		}
	}
	ctxAlone := func(what, entity, method string) func() string {
		return func() string {
			if method != "" {
				method = ", group-by method " + method
			}
			return fmt.Sprintf("stand-alone %s, entity %s, arrival order %s%s", what, entity, arrival, method)
		}
	}
	star := [2]string{"*", "*"}
	// 1. GROUP BY k1 / k2 / (k1,k2) without a client page
	okBy := map[string]bool{}
	for _, name := range names {
		be := bys[name]
		okBy[name] = true
		cut := runsOf(rows, be.tags) > len(be.ges)
		if cut {
			sk.inc("ord_states_series_order_cuts_groups:" + name)
		}
		for f := 0; f < 5; f++ {
			q := query{f: f, grouped: true, by: be.tags}
			what := fmt.Sprintf("GROUP BY %s %s", fmtKey(star, be.tags), fnames[f])
			// the stand-alone server, entity (k1,k2)
			idps, planStr, err := runNodePlan(q.request(), false, rows, false, true)
			if err != nil {
				fail("stand-alone plan, entity (k1,k2), group by "+name, err)
				return
			}
			sk.inc("plan_executions")
			sk.inc("ord_entity2_groupby_plans:" + name + ":" + groupByMethod(planStr))
			if name == "k1" && cut {
				sk.inc("ord_entity2_prefix_groupby_plans_nonadjacent")
			}
			okBy[name] = checkGroupPage(sk, b, step, "plan-entity2-standalone-groupby-"+name, f, be.tags, dpsOf(idps), be.ges, len(be.ges),
				ctxAlone(what, "(k1,k2)", groupByMethod(planStr))) && okBy[name]
			// the stand-alone server, entity (id): no part of the key is an entity tag
			idps, err = runNode(q.request(), false, rows, false, false)
			if err != nil {
				fail("stand-alone plan, entity (id), group by "+name, err)
				return
			}
			sk.inc("plan_executions")
			okBy[name] = checkGroupPage(sk, b, step, "plan-standalone-groupby-"+name, f, be.tags, dpsOf(idps), be.ges, len(be.ges), ctxAlone(what, "(id)", "")) && okBy[name]
			// coordinator + data nodes, entity (k1,k2)
			dps, c, err := distributed(q)
			if err != nil {
				fail("distributed plan, entity (k1,k2), group by "+name, err)
				return
			}
			sk.inc("ord_entity2_distributed_groupby_plans:" + name)
			okBy[name] = checkGroupPage(sk, b, step, "plan-entity2-distributed-groupby-"+name, f, be.tags, dps, be.ges, len(be.ges), ctxDist(what, c)) && okBy[name]
		}
	}
	// 2. the same with a client page (limit, offset), without and with a ranking
	for _, x := range vlib.List(obs, "pages") {
		m := vlib.Rec(x)
		be := bys[vlib.Str(m, "by")]
		if be == nil || !okBy[be.name] {
			continue // a page over wrong groups only echoes the mismatch above
		}
		lim, off, n := vlib.Int(m, "lim"), vlib.Int(m, "off"), vlib.Int(m, "n")
		more := false
		for _, s := range shards {
			if distinctKeys(rowsOf(s), be.tags) > lim+off {
				more = true
			}
		}
		// COUNT shows every lost partial; one more function (seeded)
		for _, f := range []int{fCOUNT, []int{fSUM, fMIN, fMAX, fMEAN}[rnd.Intn(4)]} {
			q := query{f: f, grouped: true, by: be.tags, limit: uint32(lim), offset: uint32(off)}
			what := fmt.Sprintf("GROUP BY %s %s LIMIT %d OFFSET %d", fmtKey(star, be.tags), fnames[f], lim, off)
			idps, err := runNode(q.request(), false, rows, false, true)
			if err != nil {
				fail("stand-alone paged plan", err)
				return
			}
			sk.inc("plan_executions")
			checkGroupPage(sk, b, step, "plan-entity2-standalone-groupby-page", f, be.tags, dpsOf(idps), be.ges, n, ctxAlone(what, "(k1,k2)", ""))
			dps, c, err := distributed(q)
			if err != nil {
				fail("distributed paged plan", err)
				return
			}
			sk.inc("ord_limited_distributed_groupby_plans")
			if more {
				sk.inc("ord_limited_distributed_groupby_plans_node_holds_more_groups_than_page")
			}
			checkGroupPage(sk, b, step, "plan-entity2-distributed-groupby-page", f, be.tags, dps, be.ges, n, ctxDist(what, c))
		}
		// TOP / BOTTOM m over the groups' SUM, then the page: all the ranks, or cfg.ranks of them (seeded)
		ranks := vlib.List(m, "ranks")
		pick := rnd.Perm(len(ranks))
		if cfg.ranks > 0 && cfg.ranks < len(pick) {
			pick = pick[:cfg.ranks]
		}
		sort.Ints(pick)
		for _, ri := range pick {
			t, _ := ranks[ri].([]any)
			if len(t) != 3 {
				sk.inconclusive(fmt.Sprintf("behaviour %d step %d: malformed rank %v", b, step, ranks[ri]))
				return
			}
			dir, _ := t[1].(string)
			q := query{f: fSUM, grouped: true, by: be.tags, topN: vlib.AsInt(t[0]), bottom: dir == "bottom", limit: uint32(lim), offset: uint32(off)}
			var want []int64
			vl, _ := t[2].([]any)
			for _, v := range vl {
				want = append(want, int64(vlib.AsInt(v)))
			}
			what := fmt.Sprintf("%s %d of SUM GROUP BY %s LIMIT %d OFFSET %d", dir, q.topN, fmtKey(star, be.tags), lim, off)
			idps, err := runNode(q.request(), false, rows, false, true)
			if err != nil {
				fail("stand-alone paged top plan", err)
				return
			}
			sk.inc("plan_executions")
			checkGroupTopBy(sk, b, step, "plan-entity2-standalone-group-top-page", be.tags, dpsOf(idps), want, be.ges, ctxAlone(what, "(k1,k2)", ""))
			dps, c, err := distributed(q)
			if err != nil {
				fail("distributed paged top plan", err)
				return
			}
			sk.inc("ord_limited_distributed_top_plans")
			if more {
				sk.inc("ord_limited_distributed_top_plans_node_holds_more_groups_than_page")
			}
			checkGroupTopBy(sk, b, step, "plan-entity2-distributed-group-top-page", be.tags, dps, want, be.ges, ctxDist(what, c))
		}
	}
}

// the seeded choices of a state depend on the state only (and VERIF_SEED): a state re-executed alone, in another
// behaviour file, makes the same choices
func stateSeed(rows []row) int64 {
	h := int64(1469598103934665603)
	for _, r := range rows {
		for _, x := range []int64{r.v, int64(r.s), int64(r.g1), int64(r.g2)} {
			h = (h ^ (x + 7)) * 1099511628211
		}
	}
	return cfg.seed*1000003 + h
}

func replayOrd(sk *sink, b vlib.Behaviour) {
	var rows []row
	for i, st := range b.States {
		if i > 0 {
			ev := vlib.Map(st, "last")
			if vlib.Str(ev, "op") != "row" {
				sk.inconclusive(fmt.Sprintf("behaviour %d step %d: unexpected op %q", b.ID, i, vlib.Str(ev, "op")))
				return
			}
			rows = append(rows, row{id: len(rows), v: int64(vlib.Int(ev, "v")), s: vlib.Int(ev, "s"), g1: vlib.Int(ev, "g1"), g2: vlib.Int(ev, "g2")})
			sk.inc("steps")
		}
		obs := vlib.Map(st, "obs")
		if obs == nil {
			continue // this state was compared in an earlier behaviour (shared prefix)
		}
		sk.inc("states_compared")
		if n := vlib.Int(obs, "n"); n != len(rows) {
			sk.inconclusive(fmt.Sprintf("behaviour %d step %d: spec has %d rows, replayer %d", b.ID, i, n, len(rows)))
			return
		}
		if cfg.layers["plan"] {
			checkOrd(sk, b.ID, i, rows, obs, rand.New(rand.NewSource(stateSeed(rows))))
		}
	}
}

// ---------------------------------------------------------------------------------------------
// the columnar twins

func vecSchema(float bool) *vectorized.BatchSchema {
	t := vectorized.ColumnTypeInt64
	if float {
		t = vectorized.ColumnTypeFloat64
	}
	return vectorized.NewBatchSchema([]vectorized.ColumnDef{
		{Role: vectorized.RoleShardID, Name: "shard_id", Type: vectorized.ColumnTypeInt64},
		{Role: vectorized.RoleTag, TagFamily: "default", Name: "k1", Type: vectorized.ColumnTypeString},
		{Role: vectorized.RoleTag, TagFamily: "default", Name: "k2", Type: vectorized.ColumnTypeString},
		{Role: vectorized.RoleField, Name: "v", Type: t},
	})
}

func vecBatch(s *vectorized.BatchSchema, rows []row, float bool) *vectorized.RecordBatch {
	b := vectorized.NewRecordBatch(s, len(rows)+1)
	for _, r := range rows {
		b.Columns[0].(*vectorized.TypedColumn[int64]).Append(int64(r.s))
		b.Columns[1].(*vectorized.TypedColumn[string]).Append(cfg.k1[r.g1-1])
		b.Columns[2].(*vectorized.TypedColumn[string]).Append(cfg.k2[r.g2-1])
		if float {
			b.Columns[3].(*vectorized.TypedColumn[float64]).Append(float64(r.v))
		} else {
			b.Columns[3].(*vectorized.TypedColumn[int64]).Append(r.v)
		}
	}
	b.Len = len(rows)
	return b
}

func vecRun(rows []row, keys []int, f int, mode vm.AggMode, float bool) (out []*vectorized.RecordBatch, err error) {
	defer func() {
		if r := recover(); r != nil {
			err = fmt.Errorf("panic: %v", r)
		}
	}()
	s := vecSchema(float)
	op := vm.NewBatchAggregation(s, keys, []vm.AggSpec{{Func: fvec[f], InputCol: 3, Output: "v"}}, mode, 1024, vectorized.NewMemoryTracker(1<<30), 0)
	defer op.Close()
	ctx := context.Background()
	if err = op.Init(ctx); err != nil {
		return nil, err
	}
	if len(rows) > 0 {
		if err = op.Consume(ctx, vecBatch(s, rows, float)); err != nil {
			return nil, err
		}
	}
	if err = op.Finalize(ctx); err != nil {
		return nil, err
	}
	for {
		nb, nerr := op.NextBatch(ctx)
		if nerr != nil {
			return nil, nerr
		}
		if nb == nil {
			return out, nil
		}
		out = append(out, nb)
	}
}

type vecRow struct {
	k1, k2 string
	i      int64
	fl     float64
}

func vecRows(batches []*vectorized.RecordBatch) []vecRow {
	var out []vecRow
	for _, b := range batches {
		k1, k2, v := -1, -1, -1
		for i, d := range b.Schema.Columns {
			switch {
			case d.Role == vectorized.RoleTag && d.Name == "k1":
				k1 = i
			case d.Role == vectorized.RoleTag && d.Name == "k2":
				k2 = i
			case d.Role == vectorized.RoleField && d.Name == "v":
				v = i
			}
		}
		for r := 0; r < b.Len; r++ {
			x := vecRow{k1: b.Columns[k1].(*vectorized.TypedColumn[string]).Data()[r], k2: b.Columns[k2].(*vectorized.TypedColumn[string]).Data()[r]}
			switch c := b.Columns[v].(type) {
			case *vectorized.TypedColumn[int64]:
				x.i = c.Data()[r]
			case *vectorized.TypedColumn[float64]:
				x.fl = c.Data()[r]
			}
			out = append(out, x)
		}
	}
	return out
}

func vecAsDPs(rows []vecRow, float bool) []*measurev1.DataPoint {
	var out []*measurev1.DataPoint
	for _, r := range rows {
		fv := &modelv1.FieldValue{Value: &modelv1.FieldValue_Int{Int: &modelv1.Int{Value: r.i}}}
		if float {
			fv = &modelv1.FieldValue{Value: &modelv1.FieldValue_Float{Float: &modelv1.Float{Value: r.fl}}}
		}
		out = append(out, &measurev1.DataPoint{
			TagFamilies: []*modelv1.TagFamily{{Name: "default", Tags: []*modelv1.Tag{{Key: "k1", Value: strTag(r.k1)}, {Key: "k2", Value: strTag(r.k2)}}}},
			Fields:      []*measurev1.DataPoint_Field{{Name: "v", Value: fv}},
		})
	}
	return out
}

func checkVec(sk *sink, b, step int, a *accs, obs map[string]any, pv pkgVerdict, rnd *rand.Rand) {
	sres := parseResult(obs["sres"])
	var shards []int
	for _, sp := range vlib.List(obs, "sparts") {
		shards = append(shards, vlib.Int(vlib.Rec(sp), "s"))
	}
	sort.Ints(shards)
	rowsOf := func(s int) []row {
		var out []row
		for _, r := range a.rows {
			if r.s == s {
				out = append(out, r)
			}
		}
		return out
	}
	reps := repConfigs(shards, cfg.maxRep)
	var ges []groupExpect
	_, grouped := obs["gres"]
	for _, g := range vlib.List(obs, "gres") {
		m := vlib.Rec(g)
		ges = append(ges, groupExpect{g1: vlib.Int(m, "g1"), g2: vlib.Int(m, "g2"), e: parseResult(m["res"])})
	}
	fail := func(what string, err error) {
		sk.inconclusive(fmt.Sprintf("behaviour %d step %d: %s: %v", b, step, what, err))
	}
	shapes := [][]int{nil}
	if grouped {
		shapes = append(shapes, []int{1, 2})
	}
	for _, keys := range shapes {
		var keyNames []string
		if keys != nil {
			keyNames = []string{"k1", "k2"}
		}
		for _, float := range []bool{false, true} {
			if float && keys != nil {
				continue
			}
			for f := 0; f < 5; f++ {
				// everything in one place
				all, err := vecRun(a.rows, keys, f, vm.AggModeAll, float)
				if err != nil {
					fail("vec AggModeAll", err)
					return
				}
				sk.inc("vec_executions")
				if keys == nil {
					checkScalar(sk, b, step, "vec-all-"+fnames[f], pv, f, float, vecAsDPs(vecRows(all), float), sres, fmt.Sprintf("BatchAggregation(AggModeAll), rows %v", a.rows))
				} else {
					checkGrouped(sk, b, step, "vec-all-grouped", f, vecAsDPs(vecRows(all), false), ges, fmt.Sprintf("BatchAggregation(AggModeAll) by (k1,k2) %s, rows %v", fnames[f], a.rows))
				}
				// Map on every shard replica, frames, Reduce on the coordinator
				frames := map[int][]byte{}
				for _, s := range shards {
					part, err := vecRun(rowsOf(s), keys, f, vm.AggModeMap, float)
					if err != nil {
						fail("vec AggModeMap", err)
						return
					}
					sk.inc("vec_executions")
					if len(part) == 0 {
						frames[s] = nil // an empty result travels as an empty body
						continue
					}
					if len(part) != 1 {
						fail("vec AggModeMap", fmt.Errorf("%d batches", len(part)))
						return
					}
					body, err := frame.Encode(part[0])
					if err != nil {
						fail("frame.Encode", err)
						return
					}
					frames[s] = body
				}
				for _, rep := range repsFor(f, float, reps, rnd) {
					nodes := nodesOf(shards, rep, rnd)
					var bodies [][]byte
					for _, n := range nodes {
						bodies = append(bodies, frames[n[0]])
					}
					red, _, err := vm.ReduceRawFrames(bodies, keyNames, []vm.AggReduceSpec{{OutputName: "v", Func: fvec[f]}}, 1024, vectorized.NewMemoryTracker(1<<30))
					if err != nil {
						fail("vec ReduceRawFrames", err)
						return
					}
					sk.inc("vec_executions")
					ctx := fmt.Sprintf("ReduceRawFrames over AggModeMap frames, rows %v, answers from (shard,replica) %v", a.rows, nodes)
					if keys == nil {
						checkScalar(sk, b, step, "vec-distributed-scalar", pv, f, float, vecAsDPs(vecRows(red), float), sres, ctx)
						continue
					}
					if !checkGrouped(sk, b, step, "vec-distributed-grouped", f, vecAsDPs(vecRows(red), false), ges, "by (k1,k2) "+fnames[f]+", "+ctx) || f != fSUM {
						continue
					}
					for _, t := range vlib.List(obs, "gtop") {
						m := vlib.Rec(t)
						var want []int64
						for _, x := range vlib.List(m, "vals") {
							want = append(want, int64(vlib.AsInt(x)))
						}
						// ReduceRawFrames hands out pooled batches: reduce again for every top
						red2, _, err := vm.ReduceRawFrames(bodies, keyNames, []vm.AggReduceSpec{{OutputName: "v", Func: fvec[f]}}, 1024, vectorized.NewMemoryTracker(1<<30))
						if err != nil {
							fail("vec ReduceRawFrames", err)
							return
						}
						topped, err := vm.ApplyTopToReduce(red2, vm.ReduceTopSpec{FieldName: "v", N: vlib.Int(m, "n"), Asc: vlib.Str(m, "dir") == "bottom"}, 1024)
						if err != nil {
							fail("vec ApplyTopToReduce", err)
							return
						}
						sk.inc("vec_executions")
						checkGroupTop(sk, b, step, "vec-distributed-group-top", vecAsDPs(vecRows(topped), false), want, ges, fmt.Sprintf("ApplyTopToReduce %s %d, %s", vlib.Str(m, "dir"), vlib.Int(m, "n"), ctx))
					}
				}
			}
		}
	}
}

// ---------------------------------------------------------------------------------------------
// family "agg"

func replayAgg(sk *sink, b vlib.Behaviour) {
	a := newAccs()
	rnd := rand.New(rand.NewSource(cfg.seed*1000003 + int64(b.ID)))
	for i, st := range b.States {
		if i > 0 {
			ev := vlib.Map(st, "last")
			if vlib.Str(ev, "op") != "row" {
				sk.inconclusive(fmt.Sprintf("behaviour %d step %d: unexpected op %q", b.ID, i, vlib.Str(ev, "op")))
				return
			}
			a.add(row{id: len(a.rows), v: int64(vlib.Int(ev, "v")), s: vlib.Int(ev, "s"), g1: vlib.Int(ev, "g1"), g2: vlib.Int(ev, "g2")})
			sk.inc("steps")
		}
		obs := vlib.Map(st, "obs")
		if obs == nil {
			continue // this state was compared in an earlier behaviour (shared prefix)
		}
		sk.inc("states_compared")
		if n := vlib.Int(obs, "n"); n != len(a.rows) {
			sk.inconclusive(fmt.Sprintf("behaviour %d step %d: spec has %d rows, replayer %d", b.ID, i, n, len(a.rows)))
			return
		}
		pv := checkPkg(sk, b.ID, i, a, obs)
		// the same rows fed in another order (seeded) must leave the same accumulators
		if len(a.rows) > 1 {
			sh := newAccs()
			for _, j := range rnd.Perm(len(a.rows)) {
				sh.add(a.rows[j])
			}
			for f := 0; f < 5; f++ {
				if sh.directI[f].Val() != a.directI[f].Val() || sh.directI[f].Partial() != a.directI[f].Partial() {
					sk.violate(b.ID, i, "pkg-map-order-"+fnames[f], "rows %v: the accumulator depends on the arrival order (%v vs %v)", a.rows, sh.directI[f].Partial(), a.directI[f].Partial())
				}
			}
		}
		if cfg.layers["plan"] {
			checkPlans(sk, b.ID, i, a, obs, pv, rnd)
		}
		if cfg.layers["vec"] {
			checkVec(sk, b.ID, i, a, obs, pv, rnd)
		}
	}
}

// ---------------------------------------------------------------------------------------------
// family "top"

type topExpect struct {
	dir  string
	vals []int64
	n    int
}

func parseTop(obs any) []topExpect {
	var out []topExpect
	l, _ := obs.([]any)
	for _, t := range l {
		m := vlib.Rec(t)
		e := topExpect{n: vlib.Int(m, "n"), dir: vlib.Str(m, "dir")}
		for _, x := range vlib.List(m, "vals") {
			e.vals = append(e.vals, int64(vlib.AsInt(x)))
		}
		out = append(out, e)
	}
	return out
}

func eqInts(a, b []int64) bool {
	if len(a) != len(b) {
		return false
	}
	for i := range a {
		if a[i] != b[i] {
			return false
		}
	}
	return true
}

func replayTop(sk *sink, b vlib.Behaviour) {
	type qk struct {
		dir string
		n   int
	}
	qi := map[qk]*lm.TopQueue[int64]{}
	qf := map[qk]*lm.TopQueue[float64]{}
	var items []int64
	for i, st := range b.States {
		if i > 0 {
			ev := vlib.Map(st, "last")
			if vlib.Str(ev, "op") != "arrive" {
				sk.inconclusive(fmt.Sprintf("behaviour %d step %d: unexpected op %q", b.ID, i, vlib.Str(ev, "op")))
				return
			}
			v := int64(vlib.Int(ev, "v"))
			idp := &measurev1.InternalDataPoint{DataPoint: &measurev1.DataPoint{Sid: uint64(len(items))}}
			items = append(items, v)
			for k, q := range qi {
				_ = k
				q.Insert(lm.NewTopElement[int64](idp, v))
			}
			for _, q := range qf {
				q.Insert(lm.NewTopElement[float64](idp, float64(v)))
			}
			sk.inc("steps")
		}
		obsAny, ok := st["obs"]
		if !ok || obsAny == nil {
			continue
		}
		sk.inc("states_compared")
		for _, e := range parseTop(obsAny) {
			k := qk{n: e.n, dir: e.dir}
			if _, ok := qi[k]; !ok {
				if i != 0 {
					// queues exist from the first state on; a later first sight means a prefix state without obs
					qi[k] = lm.NewTopQueue[int64](e.n, e.dir == "bottom")
					qf[k] = lm.NewTopQueue[float64](e.n, e.dir == "bottom")
					for j, v := range items {
						idp := &measurev1.InternalDataPoint{DataPoint: &measurev1.DataPoint{Sid: uint64(j)}}
						qi[k].Insert(lm.NewTopElement[int64](idp, v))
						qf[k].Insert(lm.NewTopElement[float64](idp, float64(v)))
					}
				} else {
					qi[k] = lm.NewTopQueue[int64](e.n, e.dir == "bottom")
					qf[k] = lm.NewTopQueue[float64](e.n, e.dir == "bottom")
				}
			}
			// 1. the queue itself, after every arrival
			var got []int64
			for _, el := range qi[k].Elements() {
				got = append(got, el.Val())
			}
			sk.inc("top_answers_compared")
			if !eqInts(got, e.vals) {
				sk.violate(b.ID, i, "top-queue", "arrivals %v: TopQueue[int64](%d,%s).Elements()=%v, first %d of the sorted list %v", items, e.n, e.dir, got, e.n, e.vals)
			}
			var gotF []int64
			exact := true
			for _, el := range qf[k].Elements() {
				gotF = append(gotF, int64(el.Val()))
				exact = exact && float64(int64(el.Val())) == el.Val()
			}
			if !exact || !eqInts(gotF, e.vals) {
				sk.violate(b.ID, i, "top-queue-float", "arrivals %v: TopQueue[float64](%d,%s).Elements()=%v, want %v", items, e.n, e.dir, gotF, e.vals)
			}
			// 2. the top plan over the raw points (scan -> top -> limit), identities checked (ties: any valid choice)
			if cfg.layers["plan"] {
				rows := make([]row, len(items))
				for j, v := range items {
					rows[j] = row{id: j, v: v, s: 0, g1: 1, g2: 1}
				}
				q := query{f: -1, topN: e.n, bottom: e.dir == "bottom", withID: true}
				idps, err := runNode(q.request(), false, rows, false, false)
				if err != nil {
					sk.inconclusive(fmt.Sprintf("behaviour %d step %d: top plan: %v", b.ID, i, err))
					return
				}
				sk.inc("plan_executions")
				checkTopIdentities(sk, b.ID, i, "top-plan", dpsOf(idps), items, e)
			}
			// 3. the columnar BatchTop
			if cfg.layers["vec"] {
				got, ids, err := vecTop(items, e.n, e.dir == "bottom")
				if err != nil {
					sk.inconclusive(fmt.Sprintf("behaviour %d step %d: BatchTop: %v", b.ID, i, err))
					return
				}
				sk.inc("vec_executions")
				okIDs := true
				seen := map[int64]bool{}
				for j, id := range ids {
					if id < 0 || int(id) >= len(items) || seen[id] || items[id] != got[j] {
						okIDs = false
					}
					seen[id] = true
				}
				if !eqInts(got, e.vals) || !okIDs {
					sk.violate(b.ID, i, "top-vec", "arrivals %v: BatchTop(%d,%s) values %v rows %v, want values %v", items, e.n, e.dir, got, ids, e.vals)
				}
			}
		}
	}
}

func checkTopIdentities(sk *sink, b, step int, sig string, dps []*measurev1.DataPoint, items []int64, e topExpect) {
	var got []int64
	seen := map[string]bool{}
	okIDs := true
	for _, dp := range dps {
		v, _ := fieldInt(dp)
		got = append(got, v)
		id := tagOf(dp, "id")
		var n int
		if _, err := fmt.Sscanf(id, "r%d", &n); err != nil || n < 0 || n >= len(items) || items[n] != v || seen[id] {
			okIDs = false
		}
		seen[id] = true
	}
	sk.inc("top_answers_compared")
	if !eqInts(got, e.vals) || !okIDs {
		sk.violate(b, step, sig, "arrivals %v: %s %d returned values %v (identities consistent: %v), want values %v", items, e.dir, e.n, got, okIDs, e.vals)
	}
}

func vecTop(items []int64, n int, asc bool) (valsOut, ids []int64, err error) {
	defer func() {
		if r := recover(); r != nil {
			err = fmt.Errorf("panic: %v", r)
		}
	}()
	s := vectorized.NewBatchSchema([]vectorized.ColumnDef{
		{Role: vectorized.RoleTag, TagFamily: "default", Name: "id", Type: vectorized.ColumnTypeInt64},
		{Role: vectorized.RoleField, Name: "v", Type: vectorized.ColumnTypeInt64},
	})
	op := vm.NewBatchTop(s, 1, n, asc, 1024)
	defer op.Close()
	ctx := context.Background()
	if err = op.Init(ctx); err != nil {
		return nil, nil, err
	}
	b := vectorized.NewRecordBatch(s, len(items)+1)
	for i, v := range items {
		b.Columns[0].(*vectorized.TypedColumn[int64]).Append(int64(i))
		b.Columns[1].(*vectorized.TypedColumn[int64]).Append(v)
	}
	b.Len = len(items)
	if len(items) > 0 {
		if err = op.Consume(ctx, b); err != nil {
			return nil, nil, err
		}
	}
	if err = op.Finalize(ctx); err != nil {
		return nil, nil, err
	}
	for {
		nb, nerr := op.NextBatch(ctx)
		if nerr != nil {
			return nil, nil, nerr
		}
		if nb == nil {
			return valsOut, ids, nil
		}
		for r := 0; r < nb.Len; r++ {
			ids = append(ids, nb.Columns[0].(*vectorized.TypedColumn[int64]).Data()[r])
			valsOut = append(valsOut, nb.Columns[1].(*vectorized.TypedColumn[int64]).Data()[r])
		}
	}
}

// ---------------------------------------------------------------------------------------------
// int64 extremes (outside the model's bounded domain): metamorphic

var extremePool = []int64{
	math.MinInt64, math.MinInt64 + 1, math.MinInt64 / 2, -(1 << 53) - 1, -1, 0, 1, (1 << 53) + 1, math.MaxInt64 / 2, math.MaxInt64 - 1, math.MaxInt64,
}

func wrap(x *big.Int) int64 {
	m := new(big.Int).And(x, new(big.Int).SetUint64(math.MaxUint64)) // two's complement, 64 bit
	return int64(m.Uint64())
}

// the reference under wrap-around arithmetic: SUM is the exact sum reduced modulo 2^64 (so it does not depend on the
// order or grouping of the additions), MEAN the truncated quotient of that and the count, MIN/MAX/COUNT exact
func extremeRef(vs []int64) [5]int64 {
	sum := new(big.Int)
	mn, mx := vs[0], vs[0]
	for _, v := range vs {
		sum.Add(sum, big.NewInt(v))
		if v < mn {
			mn = v
		}
		if v > mx {
			mx = v
		}
	}
	w := wrap(sum)
	return [5]int64{w, int64(len(vs)), mn, mx, w / int64(len(vs))}
}

func extremes(sk *sink, n int, only int) {
	for c := 0; c < n; c++ {
		// one generator per case: a case re-executed alone (-only) sees exactly the same rows and node layout
		rnd := rand.New(rand.NewSource(cfg.seed*1000003 + int64(c)))
		nrows := 1 + rnd.Intn(7)
		nshards := 1 + rnd.Intn(4)
		var rows []row
		for i := 0; i < nrows; i++ {
			var v int64
			switch rnd.Intn(4) {
			case 0:
				v = int64(rnd.Uint64())
			default:
				v = extremePool[rnd.Intn(len(extremePool))]
			}
			rows = append(rows, row{id: i, v: v, s: rnd.Intn(nshards), g1: 1, g2: 1})
		}
		if only >= 0 && c != only {
			continue
		}
		sk.inc("extreme_cases")
		ref := extremeRef(vals(rows))
		a := newAccs()
		for _, r := range rows {
			a.add(r)
		}
		for s := 0; s < nshards; s++ {
			a.shard(s)
		}
		// TOP / BOTTOM-N over the same values: the bounded heap must keep the N greatest / smallest (as a multiset)
		for tn := 1; tn <= 3; tn++ {
			for _, bottom := range []bool{false, true} {
				q := lm.NewTopQueue[int64](tn, bottom)
				for i, r := range rows {
					q.Insert(lm.NewTopElement[int64](nil, r.v))
					_ = i
				}
				var got []int64
				for _, e := range q.Elements() {
					got = append(got, e.Val())
				}
				want := append([]int64(nil), vals(rows)...)
				sort.Slice(want, func(i, j int) bool {
					if bottom {
						return want[i] < want[j]
					}
					return want[i] > want[j]
				})
				if len(want) > tn {
					want = want[:tn]
				}
				sort.Slice(got, func(i, j int) bool { return got[i] < got[j] })
				ws := append([]int64(nil), want...)
				sort.Slice(ws, func(i, j int) bool { return ws[i] < ws[j] })
				sk.inc("extreme_topn")
				if !eqInts(got, ws) {
					sk.violate(c, 0, "extremes-top-queue", "values %v: TopQueue[int64](%d, bottom=%v) keeps %v, the %d extreme values are %v", vals(rows), tn, bottom, got, tn, ws)
				}
			}
		}
		var direct [5]int64
		for f := 0; f < 5; f++ {
			direct[f] = a.directI[f].Val()
			if direct[f] != ref[f] {
				// the same signature as in the bounded domain: same accumulator, same symptom
				sk.violate(c, 0, "pkg-map-val-"+fnames[f], "values %v: Map[int64](%s).Val()=%d, wrap-around-aware reference %d", vals(rows), fnames[f], direct[f], ref[f])
			}
			var ps []aggregation.Partial[int64]
			for s := 0; s < nshards; s++ {
				si, _ := a.shard(s)
				ps = append(ps, si[f].Partial())
			}
			for _, order := range permutations(len(ps)) {
				got, err := reduceVal(f, ps, order)
				if err != nil {
					sk.violate(c, 0, "pkg-reduce-error", "%v", err)
					continue
				}
				sk.inc("extreme_reductions")
				if got != direct[f] {
					sk.violate(c, 0, "extremes-partition-"+fnames[f], "rows %v: Reduce over shard partials %v (order %v) = %d but aggregating in one place = %d", rows, ps, order, got, direct[f])
				}
			}
			if !cfg.layers["plan"] {
				continue
			}
			// the plans: one place vs partitioned (every shard answered once), metamorphic
			q := query{f: f}
			idps, err := runNode(q.request(), false, rows, false, false)
			if err != nil {
				sk.inconclusive(fmt.Sprintf("extreme case %d: %v", c, err))
				return
			}
			one, _ := fieldInt(dpsOf(idps)[0])
			if one != direct[f] {
				sk.violate(c, 0, "extremes-plan-standalone-"+fnames[f], "rows %v: stand-alone plan %d, accumulator %d", rows, one, direct[f])
			}
			shards := make([]int, nshards)
			rep := make([]int, nshards)
			for s := range shards {
				shards[s], rep[s] = s, 1+rnd.Intn(cfg.maxRep)
			}
			cl := &cluster{cache: map[int][]byte{}, nodes: nodesOf(shards, rep, rnd), rowsOf: func(s int) []row {
				var out []row
				for _, r := range rows {
					if r.s == s {
						out = append(out, r)
					}
				}
				return out
			}}
			dps, err := runLiaison(q.request(), cl)
			if err != nil {
				sk.inconclusive(fmt.Sprintf("extreme case %d: %v", c, err))
				return
			}
			sk.inc("plan_executions")
			if len(dps) != 1 {
				sk.violate(c, 0, "plan-distributed-scalar-cardinality", "rows %v: %d data points", rows, len(dps))
				continue
			}
			if got, _ := fieldInt(dps[0]); got != one {
				sk.violate(c, 0, "plan-distributed-scalar", "rows %v, answers from (shard,replica) %v: %s = %d through the coordinator, %d stand-alone", rows, cl.nodes, fnames[f], got, one)
			}
		}
	}
}

// ---------------------------------------------------------------------------------------------

func main() {
	mode := flag.String("mode", "agg", "agg|ord|top|extremes")
	in := flag.String("in", "", "behaviour file")
	out := flag.String("out", "", "result file")
	k1 := flag.String("k1", "a", "strings of the key-1 tokens")
	k2 := flag.String("k2", "c", "strings of the key-2 tokens")
	maxRep := flag.Int("maxrep", 2, "replica answers per shard")
	intMax := flag.Int64("intmax", 1000000, "model IntMax")
	intMin := flag.Int64("intmin", -1000000, "model IntMin")
	layers := flag.String("layers", "pkg,plan,vec", "layers to bind")
	n := flag.Int("n", 2000, "extreme cases")
	only := flag.Int("only", -1, "extremes: run only this case")
	workers := flag.Int("workers", 12, "parallel replays")
	ranks := flag.Int("ranks", 0, "ord: rankings (TOP/BOTTOM m) tried per client page, seeded choice; 0 = all")
	flag.Parse()
	cfg = config{k1: strings.Split(*k1, ","), k2: strings.Split(*k2, ","), maxRep: *maxRep, intMax: *intMax, intMin: *intMin, layers: map[string]bool{}, seed: vlib.Seed(), ranks: *ranks}
	for _, l := range strings.Split(*layers, ",") {
		cfg.layers[l] = true
	}
	res := vlib.NewResult()
	sk := &sink{res: res}
	switch *mode {
	case "extremes":
		extremes(sk, *n, *only)
		res.Behaviours = res.Stats["extreme_cases"]
	default:
		bs, err := vlib.ReadBehaviours(*in)
		if err != nil {
			res.Inconclusive = append(res.Inconclusive, err.Error())
			break
		}
		ch := make(chan vlib.Behaviour)
		var wg sync.WaitGroup
		for w := 0; w < *workers; w++ {
			wg.Add(1)
			go func() {
				defer wg.Done()
				for b := range ch {
					func() {
						defer func() {
							if r := recover(); r != nil {
								sk.inconclusive(fmt.Sprintf("behaviour %d: replayer panic: %v", b.ID, r))
							}
						}()
						switch *mode {
						case "top":
							replayTop(sk, b)
						case "ord":
							replayOrd(sk, b)
						default:
							replayAgg(sk, b)
						}
					}()
				}
			}()
		}
		for _, b := range bs {
			ch <- b
		}
		close(ch)
		wg.Wait()
		res.Behaviours = len(bs)
	}
	res.Steps = res.Stats["steps"]
	sort.SliceStable(res.Violations, func(i, j int) bool { return res.Violations[i].Signature < res.Violations[j].Signature })
	res.Write(*out)
}
