// Command eng binds spec/Engine.tla to the real engines through the public gRPC API of an in-process
// stand-alone BanyanDB server (liaison gRPC -> query processor -> plan -> engine -> tsTable), with the
// maintenance steps (flush, merge of a chosen subset) run by the REAL flusher / merger code at the places the
// TLC behaviour puts them (loops parked through the verif hooks).
package main

import (
	"context"
	"encoding/json"
	"flag"
	"fmt"
	"hash/crc32"
	"os"
	"strings"
	"time"

	"github.com/onsi/gomega"
	"google.golang.org/grpc"
	"google.golang.org/grpc/credentials/insecure"

	"github.com/apache/skywalking-banyandb/banyand/measure"
	"github.com/apache/skywalking-banyandb/banyand/verifharness/vlib"
	"github.com/apache/skywalking-banyandb/pkg/logger"
	testflags "github.com/apache/skywalking-banyandb/pkg/test/flags"
	"github.com/apache/skywalking-banyandb/pkg/test/setup"
)

type config struct {
	RowTags   map[string]map[string]any `json:"rowTags"`   // id -> {a, b, arr}
	Index     string                    `json:"index"`     // none | inverted
	Engine    string                    `json:"engine"`    // measure
	Flags     []string                  `json:"flags"`     // extra server flags
	Versioned bool                      `json:"versioned"`
	TagsBySeries bool                   `json:"tagsBySeries"`
	NegZero   bool                      `json:"negZero"` // C01 only: include -0.0 in the float pool (known finding)
	Big       bool                      `json:"big"` // thorough: block-limit crossing payloads
	// Ballast > 0: every write batch carries Ballast extra rows that are not part of the spec state (the abstract rows of
	// Engine.tla stay few, the real blocks and parts get big).  "deep": all in series 1 with a high-cardinality string
	// tag (columns leave the dictionary encoding, blocks get hundreds of rows); "wide": one row in each of Ballast extra
	// series (parts get thousands of blocks, several primary index blocks).  Ballast rows lie strictly inside time slot
	// 2; they are verified by every covering query and filtered out of every other answer.
	// Lifecycle: when set, the measure snapshot / part life-cycle events of EVERY tsTable of this process (liaison write
	// queue, data nodes, stand-alone server) are recorded to <Lifecycle>.<pid> for validation by TSTableTrace.tla.
	Lifecycle string `json:"lifecycle"`
	// Shards > 1: the group has that many shards.  The spec's part layout then no longer maps to one table: flush steps
	// flush every table, merge steps merge all file parts of every table, the layout is not compared; every answer is.
	Shards      int    `json:"shards"`
	// RuleIDSign names a tag ("a" or "b"): the group name is then chosen such that the ID the registry derives for that
	// tag's index rule (CRC-32 of group + rule name) starts with the byte '-' or '+'.  IDs are opaque to users; the bytes
	// of an ID are used as field names inside the inverted index.
	RuleIDSign string `json:"ruleIdSign"`
	Ballast     int    `json:"ballast"`
	BallastMode string `json:"ballastMode"`
}

// world is one engine instance under replay (one fresh group per behaviour).
type world interface {
	setup(ctx context.Context) error
	replay(ctx context.Context, b vlib.Behaviour)
	teardown(ctx context.Context)
}

// engines maps config.Engine to a constructor; engine files register themselves in init().
var engines = map[string]func(srv *server, cfg config, group string, res *vlib.Result) world{
	"measure": func(srv *server, cfg config, group string, res *vlib.Result) world {
		return newMeasureWorld(srv, cfg, group, res)
	},
}

// engineFlags returns the server flags and the manual-maintenance switch for an engine.
var engineInit = map[string]func() []string{
	"measure": func() []string {
		measure.VerifSetManual(true)
		return []string{"--measure-flush-timeout=1h"}
	},
}

type server struct {
	conn *grpc.ClientConn
	addr string
}

func startServer(flags []string) (*server, error) {
	var failure error
	gomega.RegisterFailHandler(func(msg string, _ ...int) {
		failure = fmt.Errorf("gomega: %s", msg)
		panic(failure)
	})
	testflags.EventuallyTimeout = 90 * time.Second // the sandbox may be heavily loaded: a slow start is not a verdict
	var s *server
	func() {
		defer func() {
			if r := recover(); r != nil && failure == nil {
				failure = fmt.Errorf("server start panicked: %v", r)
			}
		}()
		addr, _, _ := setup.EmptyStandalone(nil, flags...)
		conn, err := grpc.NewClient(addr, grpc.WithTransportCredentials(insecure.NewCredentials()),
			grpc.WithDefaultCallOptions(grpc.MaxCallRecvMsgSize(256<<20), grpc.MaxCallSendMsgSize(256<<20)))
		if err != nil {
			failure = err
			return
		}
		s = &server{conn: conn, addr: addr}
	}()
	return s, failure
}

func main() {
	mode := flag.String("mode", "replay", "replay|stress")
	in := flag.String("in", "", "behaviour file")
	out := flag.String("out", "", "result file")
	cfgs := flag.String("cfg", "{}", "json config")
	flag.Parse()
	_ = logger.Init(logger.Logging{Env: "prod", Level: "error"})
	res := vlib.NewResult()
	finish := func() {
		res.Write(*out)
		os.Exit(0) // the in-process server's close function takes 30 s: just leave
	}
	var cfg config
	if err := json.Unmarshal([]byte(*cfgs), &cfg); err != nil {
		res.Inconclusive = append(res.Inconclusive, "bad cfg: "+err.Error())
		finish()
	}
	if *mode == "stress" {
		runStress(*cfgs, res)
		finish()
	}
	bs, err := vlib.ReadBehaviours(*in)
	if err != nil {
		res.Inconclusive = append(res.Inconclusive, err.Error())
		finish()
	}
	if cfg.Engine == "" {
		cfg.Engine = "measure"
	}
	mk, ok := engines[cfg.Engine]
	if !ok {
		res.Inconclusive = append(res.Inconclusive, "unknown engine "+cfg.Engine)
		finish()
	}
	flags := append(engineInit[cfg.Engine](), "--logging-level=error")
	flags = append(flags, cfg.Flags...)
	srv, err := startServer(flags)
	if err != nil {
		res.Inconclusive = append(res.Inconclusive, "server: "+err.Error())
		finish()
	}
	ctx := context.Background()
	if cfg.Lifecycle != "" {
		if terr := measure.VerifStartTrace(fmt.Sprintf("%s.%d", cfg.Lifecycle, os.Getpid())); terr != nil {
			res.Inconclusive = append(res.Inconclusive, "lifecycle trace: "+terr.Error())
			finish()
		}
	}
	tag := fmt.Sprintf("p%d", os.Getpid())
	for n, b := range bs {
		vlib.Progress(b.ID)
		res.Behaviours++
		group := fmt.Sprintf("vf%s-%d", tag, n)
		if cfg.RuleIDSign != "" {
			for k := 0; ; k++ {
				g := fmt.Sprintf("%s-%d", group, k)
				if c := crc32.ChecksumIEEE([]byte(g + "idx-" + cfg.RuleIDSign)); byte(c>>24) == '-' || byte(c>>24) == '+' {
					group = g
					break
				}
			}
		}
		m := mk(srv, cfg, group, res)
		if err := m.setup(ctx); err != nil {
			if strings.HasPrefix(err.Error(), "VIOLATION") {
				res.Violate(b.ID, 0, "schema-setup-failed", "%v", err)
			} else {
				res.Inconclusive = append(res.Inconclusive, "setup: "+err.Error())
			}
			continue
		}
		m.replay(ctx, b)
		m.teardown(ctx)
	}
	if cfg.Lifecycle != "" {
		time.Sleep(500 * time.Millisecond) // let the maintenance loops settle: their publications belong to the trace
		res.Stats["lifecycle_events"] = measure.VerifStopTrace()
	}
	finish()
}
