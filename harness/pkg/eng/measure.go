package main

import (
	"context"
	"fmt"
	"hash/crc32"
	"io"
	"math"
	"math/rand"
	"sort"
	"strings"
	"time"

	"google.golang.org/protobuf/proto"
	"google.golang.org/protobuf/types/known/timestamppb"

	commonv1 "github.com/apache/skywalking-banyandb/api/proto/banyandb/common/v1"
	databasev1 "github.com/apache/skywalking-banyandb/api/proto/banyandb/database/v1"
	measurev1 "github.com/apache/skywalking-banyandb/api/proto/banyandb/measure/v1"
	modelv1 "github.com/apache/skywalking-banyandb/api/proto/banyandb/model/v1"
	"github.com/apache/skywalking-banyandb/banyand/measure"
	"github.com/apache/skywalking-banyandb/banyand/verifharness/vlib"
)

const measureName = "m"

// ---- concretisation: id -> adversarial concrete values (seeded) -----------------------------------------

var (
	intPool = []int64{0, 1, -1, math.MaxInt64, math.MinInt64, 1<<53 + 1, -(1<<53 + 1), 255, 256, 65535, 4294967296, -4294967297, 1234567890123}
	// values that survive a decimal round trip trivially, values with 17 significant digits, sub-normals, extremes
	floatPool = []float64{0, 1.5, -2.25, 100, 0.1, 1298840.8475174343, 3.141592653589793, math.MaxFloat64, -math.MaxFloat64,
		math.SmallestNonzeroFloat64, 2.2250738585072014e-308, 1e-7, 123456789.12345679, float64(1<<53 + 2), math.Copysign(0, -1)}
	strPool  = []string{"", "x", "a|b\\c", "üñí-çødé ☃", "with \"quotes\" and 'single'", "\x00nul", strings.Repeat("long-", 300), " lead/trail "}
	bytePool = [][]byte{nil, {}, {0}, {0xff, 0x00, 0x7c, 0x5c}, []byte(strings.Repeat("\x01\x02\x03", 400))}
	arrPool  = [][]string{nil, {}, {""}, {"a", "b|"}, {"x", "x", "y"}}
)

type rowVals struct {
	fb   []byte
	pb   []byte
	pa   []string
	fs   string
	ps   string
	fi   int64
	ff   float64
	null uint8 // bit 0: ps written as null, bit 1: fs written as null
}

func (m *measureWorld) vals(id int) rowVals {
	r := rand.New(rand.NewSource(m.seed*1000003 + int64(id)*7919))
	pick := func(n int) int { return r.Intn(n) }
	v := rowVals{
		fi: intPool[pick(len(intPool))], ff: floatPool[pick(len(floatPool))], fs: strPool[pick(len(strPool))],
		fb: bytePool[pick(len(bytePool))], ps: strPool[pick(len(strPool))], pb: bytePool[pick(len(bytePool))], pa: arrPool[pick(len(arrPool))],
	}
	if pick(4) == 0 {
		v.fi = r.Int63() - r.Int63()
	}
	// every third behaviour: arithmetic progressions along the time axis of a series, with steps at the boundaries of
	// the variable-length / delta encodings (consecutive rows of a series then differ by exactly the step)
	if m.vmap%3 == 0 {
		steps := []int64{64, -64, 63, 65, 128, -128, 127, 1 << 14, -(1 << 14), 1<<14 - 1, 1 << 21, 8192, 1}
		st := steps[(m.vmap/3)%len(steps)]
		v.fi = int64(m.vmap%7)*1000 + int64(m.tOf[id])*st
		v.ff = float64(m.vmap%5) + float64(m.tOf[id])*float64(st)/4
	}
	if pick(4) == 0 {
		v.ff = math.Float64frombits(r.Uint64())
		for math.IsNaN(v.ff) || math.IsInf(v.ff, 0) {
			v.ff = math.Float64frombits(r.Uint64())
		}
	}
	if pick(6) == 0 {
		v.null |= 1
	}
	if !m.cfg.NegZero && v.ff == 0 {
		v.ff = 0 // -0.0 is exercised by C01 only
	}
	if m.cfg.Big && pick(5) == 0 {
		v.ps = strings.Repeat(fmt.Sprintf("%08d", id), 40000) // 320 KB: several of these cross the 2 MiB block limit
	}
	return v
}

// ---- world ---------------------------------------------------------------------------------------------

type measureWorld struct {
	base   time.Time
	srv    *server
	res    *vlib.Result
	pids   map[int]uint64 // spec part id -> real part id
	pbatch map[int]map[int]bool // spec part id -> write batches whose rows (and ballast) went into it
	seriesOf map[int]int   // row id -> series
	tOf    map[int]int   // row id -> time slot
	vmap   int
	group  string
	root   string
	cfg    config
	seed   int64
	msgID  uint64
}

func newMeasureWorld(srv *server, cfg config, group string, res *vlib.Result) *measureWorld {
	now := time.Now().UTC()
	base := time.Date(now.Year(), now.Month(), now.Day(), 1, 0, 0, 0, time.UTC)
	return &measureWorld{srv: srv, cfg: cfg, group: group, res: res, seed: vlib.Seed(), base: base, pids: map[int]uint64{}, seriesOf: map[int]int{}, tOf: map[int]int{}}
}

// versionMaps are monotone embeddings of the model's versions 1..4 into int64 (signs and extremes included; never 0:
// a zero version means "unset" and the server substitutes the message id).
var versionMaps = [][]int64{{0, 1, 2, 3, 4}, {0, 64, 128, 192, 256}, {0, -7, -1, 5, 9}, {0, math.MinInt64, -1, 1, math.MaxInt64}, {0, -4, -3, -2, -1},
	{0, 1700000000000000000, 1700000000000000001, 1700000000000000002, math.MaxInt64}}

func (m *measureWorld) version(v int) int64 {
	vm := versionMaps[m.vmap%len(versionMaps)]
	if v < len(vm) {
		return vm[v]
	}
	return int64(v)
}

func (m *measureWorld) ts(t int) time.Time { return m.base.Add(time.Duration(t) * time.Minute) }

func (m *measureWorld) seriesName(s int) string {
	names := []string{"", "svc-1", "svc|2\\", "svc-10", ""}
	if s < len(names) && names[s] != "" {
		return names[s]
	}
	return fmt.Sprintf("svc-%d", s)
}

func (m *measureWorld) setup(ctx context.Context) error {
	gc := databasev1.NewGroupRegistryServiceClient(m.srv.conn)
	_, err := gc.Create(ctx, &databasev1.GroupRegistryServiceCreateRequest{Group: &commonv1.Group{
		Metadata: &commonv1.Metadata{Name: m.group},
		Catalog:  commonv1.Catalog_CATALOG_MEASURE,
		ResourceOpts: &commonv1.ResourceOpts{
			ShardNum:        uint32(max(1, m.cfg.Shards)),
			SegmentInterval: &commonv1.IntervalRule{Unit: commonv1.IntervalRule_UNIT_DAY, Num: 1},
			Ttl:             &commonv1.IntervalRule{Unit: commonv1.IntervalRule_UNIT_DAY, Num: 30},
		},
	}})
	if err != nil {
		return fmt.Errorf("create group: %w", err)
	}
	mc := databasev1.NewMeasureRegistryServiceClient(m.srv.conn)
	_, err = mc.Create(ctx, &databasev1.MeasureRegistryServiceCreateRequest{Measure: &databasev1.Measure{
		Metadata: &commonv1.Metadata{Name: measureName, Group: m.group},
		TagFamilies: []*databasev1.TagFamilySpec{{Name: "default", Tags: []*databasev1.TagSpec{
			{Name: "svc", Type: databasev1.TagType_TAG_TYPE_STRING},
			{Name: "rid", Type: databasev1.TagType_TAG_TYPE_INT},
			{Name: "a", Type: databasev1.TagType_TAG_TYPE_INT},
			{Name: "b", Type: databasev1.TagType_TAG_TYPE_STRING},
			{Name: "arr", Type: databasev1.TagType_TAG_TYPE_INT_ARRAY},
			{Name: "ps", Type: databasev1.TagType_TAG_TYPE_STRING},
			{Name: "pb", Type: databasev1.TagType_TAG_TYPE_DATA_BINARY},
			{Name: "pa", Type: databasev1.TagType_TAG_TYPE_STRING_ARRAY},
		}}},
		Fields: []*databasev1.FieldSpec{
			{Name: "fi", FieldType: databasev1.FieldType_FIELD_TYPE_INT, EncodingMethod: databasev1.EncodingMethod_ENCODING_METHOD_GORILLA, CompressionMethod: databasev1.CompressionMethod_COMPRESSION_METHOD_ZSTD},
			{Name: "ff", FieldType: databasev1.FieldType_FIELD_TYPE_FLOAT, EncodingMethod: databasev1.EncodingMethod_ENCODING_METHOD_GORILLA, CompressionMethod: databasev1.CompressionMethod_COMPRESSION_METHOD_ZSTD},
			{Name: "fs", FieldType: databasev1.FieldType_FIELD_TYPE_STRING, EncodingMethod: databasev1.EncodingMethod_ENCODING_METHOD_GORILLA, CompressionMethod: databasev1.CompressionMethod_COMPRESSION_METHOD_ZSTD},
			{Name: "fb", FieldType: databasev1.FieldType_FIELD_TYPE_DATA_BINARY, EncodingMethod: databasev1.EncodingMethod_ENCODING_METHOD_GORILLA, CompressionMethod: databasev1.CompressionMethod_COMPRESSION_METHOD_ZSTD},
		},
		Entity:   &databasev1.Entity{TagNames: []string{"svc"}},
		Interval: "1m",
	}})
	if err != nil {
		return fmt.Errorf("create measure: %w", err)
	}
	if m.cfg.Index == "inverted" {
		ic := databasev1.NewIndexRuleRegistryServiceClient(m.srv.conn)
		for _, t := range []string{"a", "b"} {
			if _, err = ic.Create(ctx, &databasev1.IndexRuleRegistryServiceCreateRequest{IndexRule: &databasev1.IndexRule{
				Metadata: &commonv1.Metadata{Name: "idx-" + t, Group: m.group}, Tags: []string{t}, Type: databasev1.IndexRule_TYPE_INVERTED,
			}}); err != nil {
				return fmt.Errorf("create index rule: %w", err)
			}
		}
		bc := databasev1.NewIndexRuleBindingRegistryServiceClient(m.srv.conn)
		if _, err = bc.Create(ctx, &databasev1.IndexRuleBindingRegistryServiceCreateRequest{IndexRuleBinding: &databasev1.IndexRuleBinding{
			Metadata: &commonv1.Metadata{Name: "bind", Group: m.group}, Rules: []string{"idx-a", "idx-b"},
			Subject:  &databasev1.Subject{Catalog: commonv1.Catalog_CATALOG_MEASURE, Name: measureName},
			BeginAt:  timestamppb.New(m.base.Add(-24 * time.Hour)), ExpireAt: timestamppb.New(m.base.Add(24 * 365 * time.Hour)),
		}}); err != nil {
			return fmt.Errorf("create binding: %w", err)
		}
	}
	// the measure service learns about the schema asynchronously: wait until a query is answered
	deadline := time.Now().Add(20 * time.Second)
	probe := m.coverReq()
	if m.cfg.Index != "none" && m.cfg.Index != "" {
		// a criteria query on an indexed tag is rejected until the index rule binding has reached the
		// measure's schema: writing before that would store the tag as an ordinary column
		probe.Criteria = &modelv1.Criteria{Exp: &modelv1.Criteria_Condition{Condition: &modelv1.Condition{Name: "b", Op: modelv1.Condition_BINARY_OP_EQ, Value: tagStr("none")}}}
	}
	settled := 0
	for {
		_, qerr := m.query(ctx, probe)
		if qerr == nil {
			settled++
			if settled >= 3 { // three consecutive answers: the schema events have been applied
				return nil
			}
			time.Sleep(10 * time.Millisecond)
			continue
		}
		settled = 0
		if time.Now().After(deadline) {
			return fmt.Errorf("schema not served after 20s: %w", qerr)
		}
		time.Sleep(20 * time.Millisecond)
	}
}

func (m *measureWorld) teardown(ctx context.Context) {
	gc := databasev1.NewGroupRegistryServiceClient(m.srv.conn)
	cctx, cancel := context.WithTimeout(ctx, 10*time.Second)
	defer cancel()
	_, _ = gc.Delete(cctx, &databasev1.GroupRegistryServiceDeleteRequest{Group: m.group})
}

func (m *measureWorld) query(ctx context.Context, req *measurev1.QueryRequest) (*measurev1.QueryResponse, error) {
	cctx, cancel := context.WithTimeout(ctx, 30*time.Second)
	defer cancel()
	return measurev1.NewMeasureServiceClient(m.srv.conn).Query(cctx, req)
}

func (m *measureWorld) coverReq() *measurev1.QueryRequest {
	return &measurev1.QueryRequest{
		Groups: []string{m.group}, Name: measureName,
		TimeRange: &modelv1.TimeRange{Begin: timestamppb.New(m.base.Add(-time.Hour)), End: timestamppb.New(m.base.Add(12 * time.Hour))},
		TagProjection: &modelv1.TagProjection{TagFamilies: []*modelv1.TagProjection_TagFamily{{Name: "default",
			Tags: []string{"svc", "rid", "a", "b", "arr", "ps", "pb", "pa"}}}},
		FieldProjection: &measurev1.QueryRequest_FieldProjection{Names: []string{"fi", "ff", "fs", "fb"}},
		Limit:           1000000,
	}
}

// ---- ballast (see config.Ballast) ------------------------------------------------------------------------

func (m *measureWorld) ballastSeries(j int) string {
	if m.cfg.BallastMode == "wide" {
		return fmt.Sprintf("bw-%05d", j)
	}
	return m.seriesName(1)
}

func (m *measureWorld) ballastTime(batch, j int) time.Time {
	if m.cfg.BallastMode == "wide" {
		return m.ts(2).Add(time.Duration(2+batch) * time.Millisecond)
	}
	// a measure keeps one version per (series, timestamp): the ballast rows of different batches must not collide
	return m.ts(2).Add(time.Duration(2+j*40+batch%40) * time.Millisecond)
}

func (m *measureWorld) ballastPoint(batch, j int) *measurev1.DataPointValue {
	id := ballastID(batch, j)
	null := &modelv1.TagValue{Value: &modelv1.TagValue_Null{}}
	return &measurev1.DataPointValue{
		Timestamp: timestamppb.New(m.ballastTime(batch, j)),
		Version:   m.version(1),
		TagFamilies: []*modelv1.TagFamilyForWrite{{Tags: []*modelv1.TagValue{
			tagStr(m.ballastSeries(j)), tagInt(int64(id)), tagInt(0), tagStr("b00"),
			{Value: &modelv1.TagValue_IntArray{IntArray: &modelv1.IntArray{Value: []int64{int64(j)}}}},
			tagStr(ballastPayload(batch, j)), null, null,
		}}},
		Fields: []*modelv1.FieldValue{
			{Value: &modelv1.FieldValue_Int{Int: &modelv1.Int{Value: int64(j)*64 + int64(batch)}}},
			{Value: &modelv1.FieldValue_Float{Float: &modelv1.Float{Value: float64(j) / 4}}},
			{Value: &modelv1.FieldValue_Str{Str: &modelv1.Str{Value: ballastPayload(batch, j)}}},
			{Value: &modelv1.FieldValue_BinaryData{BinaryData: nil}},
		},
	}
}

func (m *measureWorld) splitBallast(dps []*measurev1.DataPoint) (spec, ballast []*measurev1.DataPoint) {
	if m.cfg.Ballast == 0 {
		return dps, nil
	}
	for _, dp := range dps {
		if findTag(dp, "rid").GetInt().GetValue() >= ballastBase {
			ballast = append(ballast, dp)
		} else {
			spec = append(spec, dp)
		}
	}
	return
}

// checkBallast: every ballast data point of every acknowledged batch is returned exactly once, exactly as written.
func (m *measureWorld) checkBallast(ballast []*measurev1.DataPoint, acked map[int]map[string]any) (string, string) {
	want := map[int][2]int{}
	for b := range batchesOf(acked) {
		for j := 0; j < m.cfg.Ballast; j++ {
			want[ballastID(b, j)] = [2]int{b, j}
		}
	}
	seen := map[int]bool{}
	for _, dp := range ballast {
		id := int(findTag(dp, "rid").GetInt().GetValue())
		bj, ok := want[id]
		if !ok {
			return "phantom-row", fmt.Sprintf("returned ballast row id %d was never written", id)
		}
		if seen[id] {
			return "duplicate-row-for-key", fmt.Sprintf("ballast row id %d returned twice", id)
		}
		seen[id] = true
		if got := findTag(dp, "ps").GetStr().GetValue(); got != ballastPayload(bj[0], bj[1]) {
			return "value-not-as-written:ballast-string-tag", fmt.Sprintf("ballast row id %d (batch %d #%d): ps=%q, written %q", id, bj[0], bj[1], got, ballastPayload(bj[0], bj[1]))
		}
		if got := findTag(dp, "svc").GetStr().GetValue(); got != m.ballastSeries(bj[1]) {
			return "value-not-as-written:ballast-entity", fmt.Sprintf("ballast row id %d: svc=%q, written %q", id, got, m.ballastSeries(bj[1]))
		}
		if !dp.Timestamp.AsTime().Equal(m.ballastTime(bj[0], bj[1])) {
			return "value-not-as-written:ballast-timestamp", fmt.Sprintf("ballast row id %d: timestamp %s, written %s", id, dp.Timestamp.AsTime(), m.ballastTime(bj[0], bj[1]))
		}
		if got := findField(dp, "fi").GetInt().GetValue(); got != int64(bj[1])*64+int64(bj[0]) {
			return "value-not-as-written:ballast-int-field", fmt.Sprintf("ballast row id %d: fi=%d, written %d", id, got, int64(bj[1])*64+int64(bj[0]))
		}
		if got := findField(dp, "ff").GetFloat().GetValue(); got != float64(bj[1])/4 {
			return "value-not-as-written:ballast-float-field", fmt.Sprintf("ballast row id %d: ff=%v, written %v", id, got, float64(bj[1])/4)
		}
		if got := findField(dp, "fs").GetStr().GetValue(); got != ballastPayload(bj[0], bj[1]) {
			return "value-not-as-written:ballast-string-field", fmt.Sprintf("ballast row id %d: fs=%q, written %q", id, got, ballastPayload(bj[0], bj[1]))
		}
	}
	if len(seen) != len(want) {
		for id, bj := range want {
			if !seen[id] {
				return "missing-row", fmt.Sprintf("%d of %d ballast rows are missing, e.g. id %d (batch %d #%d, series %s)", len(want)-len(seen), len(want), id, bj[0], bj[1], m.ballastSeries(bj[1]))
			}
		}
	}
	return "", ""
}

func tagStr(s string) *modelv1.TagValue {
	return &modelv1.TagValue{Value: &modelv1.TagValue_Str{Str: &modelv1.Str{Value: s}}}
}

func tagInt(v int64) *modelv1.TagValue {
	return &modelv1.TagValue{Value: &modelv1.TagValue_Int{Int: &modelv1.Int{Value: v}}}
}

func (m *measureWorld) rowTags(id int) (a int64, b string, arr []int64) {
	t := m.cfg.RowTags[fmt.Sprint(id)]
	if m.cfg.TagsBySeries {
		t = m.cfg.RowTags[fmt.Sprint(m.seriesOf[id])]
	}
	a = int64(vlib.Int(t, "a"))
	b = fmt.Sprintf("b%02d", vlib.Int(t, "b"))
	for _, x := range vlib.Ints(vlib.List(t, "arr")) {
		arr = append(arr, int64(x))
	}
	sort.Slice(arr, func(i, j int) bool { return arr[i] < arr[j] })
	return
}

func (m *measureWorld) dataPoint(row map[string]any) *measurev1.DataPointValue {
	id := vlib.Int(row, "id")
	m.seriesOf[id] = vlib.Int(row, "s")
	m.tOf[id] = vlib.Int(row, "t")
	v := m.vals(id)
	a, b, arr := m.rowTags(id)
	ps := tagStr(v.ps)
	if v.null&1 != 0 {
		ps = &modelv1.TagValue{Value: &modelv1.TagValue_Null{}}
	}
	when := m.ts(vlib.Int(row, "t"))
	if _, ok := row["sec"]; ok {
		when = m.base.Add(time.Duration(vlib.Int(row, "sec")) * time.Second)
	}
	return &measurev1.DataPointValue{
		Timestamp: timestamppb.New(when),
		Version:   m.version(vlib.Int(row, "v")),
		TagFamilies: []*modelv1.TagFamilyForWrite{{Tags: []*modelv1.TagValue{
			tagStr(m.seriesName(vlib.Int(row, "s"))), tagInt(int64(id)), tagInt(a), tagStr(b),
			{Value: &modelv1.TagValue_IntArray{IntArray: &modelv1.IntArray{Value: arr}}},
			ps,
			{Value: &modelv1.TagValue_BinaryData{BinaryData: v.pb}},
			{Value: &modelv1.TagValue_StrArray{StrArray: &modelv1.StrArray{Value: v.pa}}},
		}}},
		Fields: []*modelv1.FieldValue{
			{Value: &modelv1.FieldValue_Int{Int: &modelv1.Int{Value: v.fi}}},
			{Value: &modelv1.FieldValue_Float{Float: &modelv1.Float{Value: v.ff}}},
			{Value: &modelv1.FieldValue_Str{Str: &modelv1.Str{Value: v.fs}}},
			{Value: &modelv1.FieldValue_BinaryData{BinaryData: v.fb}},
		},
	}
}

// write sends one batch = one gRPC write stream and waits for every acknowledgement.
func (m *measureWorld) write(ctx context.Context, rows []map[string]any) error {
	cctx, cancel := context.WithTimeout(ctx, 30*time.Second)
	defer cancel()
	st, err := measurev1.NewMeasureServiceClient(m.srv.conn).Write(cctx)
	if err != nil {
		return err
	}
	md := &commonv1.Metadata{Name: measureName, Group: m.group}
	for _, r := range rows {
		m.msgID++
		if err = st.Send(&measurev1.WriteRequest{Metadata: md, DataPoint: m.dataPoint(r), MessageId: m.msgID}); err != nil {
			return err
		}
	}
	sent := len(rows)
	if m.cfg.Ballast > 0 && len(rows) > 0 {
		if _, stress := rows[0]["sec"]; !stress {
			batch := vlib.Int(rows[0], "batch")
			for j := 0; j < m.cfg.Ballast; j++ {
				m.msgID++
				if err = st.Send(&measurev1.WriteRequest{Metadata: md, DataPoint: m.ballastPoint(batch, j), MessageId: m.msgID}); err != nil {
					return err
				}
				sent++
			}
		}
	}
	if err = st.CloseSend(); err != nil {
		return err
	}
	acks := 0
	for {
		resp, rerr := st.Recv()
		if rerr == io.EOF {
			break
		}
		if rerr != nil {
			return rerr
		}
		if resp.Status != modelv1.Status_STATUS_SUCCEED.String() {
			return fmt.Errorf("VIOLATION write not acknowledged: status %s", resp.Status)
		}
		acks++
	}
	if acks != sent {
		return fmt.Errorf("VIOLATION %d acknowledgements for %d data points", acks, sent)
	}
	return nil
}

func sortedRows(l []any) []map[string]any {
	var rows []map[string]any
	for _, v := range l {
		rows = append(rows, vlib.Rec(v))
	}
	sort.Slice(rows, func(i, j int) bool { return vlib.Int(rows[i], "id") < vlib.Int(rows[j], "id") })
	return rows
}

func (m *measureWorld) replay(ctx context.Context, b vlib.Behaviour) {
	// the version embedding is chosen per behaviour from its first step (stable under truncation of the behaviour,
	// which is how a violation is re-executed) and the seed
	if len(b.States) > 1 {
		m.vmap = int(crc32.ChecksumIEEE([]byte(vlib.Canon(b.States[1]["last"]))))%1000 + int(vlib.Seed())
	}
	for i, st := range b.States {
		if i == 0 {
			continue
		}
		ev := vlib.Map(st, "last")
		op := vlib.Str(ev, "op")
		m.res.Steps++
		m.res.Inc("op_" + op)
		fail := func(sig, format string, a ...any) { m.res.Violate(b.ID, i, sig, format, a...) }
		switch op {
		case "write":
			before := m.realParts()
			if err := m.write(ctx, sortedRows(vlib.List(ev, "rows"))); err != nil {
				if strings.HasPrefix(err.Error(), "VIOLATION") {
					fail("write-not-acknowledged", "%v", err)
				} else {
					m.res.Inconclusive = append(m.res.Inconclusive, "write: "+err.Error())
				}
				return
			}
			if m.cfg.Shards > 1 {
				break // several tables: the layout is not mapped (see config.Shards)
			}
			if m.root == "" {
				roots := measure.VerifTableRoots("/" + m.group + "/")
				if len(roots) != 1 {
					m.res.Inconclusive = append(m.res.Inconclusive, fmt.Sprintf("expected one table for group %s, found %v", m.group, roots))
					return
				}
				m.root = roots[0]
			}
			var fresh []uint64
			for id := range m.realParts() {
				if _, ok := before[id]; !ok {
					fresh = append(fresh, id)
				}
			}
			if len(fresh) != 1 {
				fail("write-did-not-add-one-part", "acknowledged batch produced %d new parts (%v)", len(fresh), fresh)
				return
			}
			m.pids[vlib.Int(ev, "part")] = fresh[0]
			if m.pbatch == nil {
				m.pbatch = map[int]map[int]bool{}
			}
			m.pbatch[vlib.Int(ev, "part")] = map[int]bool{}
			for _, r := range vlib.List(ev, "rows") {
				m.pbatch[vlib.Int(ev, "part")][vlib.Int(vlib.Rec(r), "batch")] = true
			}
		case "flush":
			if m.cfg.Shards > 1 {
				for _, r := range measure.VerifTableRoots("/" + m.group + "/") {
					if err := measure.VerifFlush(r); err != nil {
						m.res.Inconclusive = append(m.res.Inconclusive, "flush: "+err.Error())
						return
					}
				}
				m.res.Inc("multi_shard_flushes")
				break
			}
			if err := measure.VerifFlush(m.root); err != nil {
				m.res.Inconclusive = append(m.res.Inconclusive, "flush: "+err.Error())
				return
			}
		case "merge":
			if m.cfg.Shards > 1 {
				for _, r := range measure.VerifTableRoots("/" + m.group + "/") {
					_, ps := measure.VerifParts(r)
					var files []uint64
					for _, p := range ps {
						if !p.Mem {
							files = append(files, p.ID)
						}
					}
					if len(files) < 2 {
						continue
					}
					if _, err := measure.VerifMerge(r, files); err != nil {
						fail("merge-failed", "merging parts %v of %s: %v", files, r, err)
						return
					}
					m.res.Inc("multi_shard_merges")
				}
				break
			}
			var ids []uint64
			for _, p := range vlib.Ints(vlib.List(ev, "inputs")) {
				ids = append(ids, m.pids[p])
			}
			m.res.Inc(fmt.Sprintf("merge_fan_in_%d", len(ids)))
			out, err := measure.VerifMerge(m.root, ids)
			if err != nil {
				fail("merge-failed", "merging parts %v: %v", ids, err)
				return
			}
			m.pids[vlib.Int(ev, "out")] = out
			if m.pbatch != nil {
				u := map[int]bool{}
				for _, p := range vlib.Ints(vlib.List(ev, "inputs")) {
					for b := range m.pbatch[p] {
						u[b] = true
					}
				}
				m.pbatch[vlib.Int(ev, "out")] = u
			}
		case "query":
			if !m.checkQuery(ctx, st, ev, fail) {
				return
			}
			continue
		case "queryall":
			for _, r := range vlib.List(ev, "res") {
				if !m.checkQuery(ctx, st, vlib.Rec(r), fail) {
					return
				}
			}
			continue
		}
		if m.cfg.Shards <= 1 && !m.checkParts(st, op, fail) {
			return
		}
		if !m.checkCover(ctx, st, op, fail) {
			return
		}
	}
}

func (m *measureWorld) realParts() map[uint64]measure.VerifPart {
	out := map[uint64]measure.VerifPart{}
	if m.root == "" {
		for _, r := range measure.VerifTableRoots("/" + m.group + "/") {
			_, ps := measure.VerifParts(r)
			for _, p := range ps {
				out[p.ID] = p
			}
		}
		return out
	}
	_, ps := measure.VerifParts(m.root)
	for _, p := range ps {
		out[p.ID] = p
	}
	return out
}

// checkParts compares the part layout (ids, memory/file, row counts) with the spec state.
func (m *measureWorld) checkParts(st vlib.State, op string, fail func(string, string, ...any)) bool {
	real := m.realParts()
	want := vlib.List(st, "parts")
	if len(real) != len(want) {
		fail("part-layout-differs-after-"+op, "real snapshot has %d parts, spec %d", len(real), len(want))
		return false
	}
	for _, pv := range want {
		p := vlib.Rec(pv)
		rp, ok := real[m.pids[vlib.Int(p, "pid")]]
		if !ok {
			fail("part-missing-after-"+op, "spec part %d (real %d) is not in the snapshot", vlib.Int(p, "pid"), m.pids[vlib.Int(p, "pid")])
			return false
		}
		if rp.Mem != vlib.Bool(p, "mem") {
			fail("part-kind-differs-after-"+op, "part %d: real mem=%v spec mem=%v", rp.ID, rp.Mem, vlib.Bool(p, "mem"))
			return false
		}
		wantCount := len(vlib.List(p, "rows"))
		if m.cfg.Ballast > 0 {
			wantCount += m.cfg.Ballast * len(m.pbatch[vlib.Int(p, "pid")])
		}
		if m.cfg.Versioned && int(rp.Count) != wantCount {
			fail("part-count-differs-after-"+op, "part %d holds %d rows, spec %d", rp.ID, rp.Count, wantCount)
			return false
		}
	}
	return true
}

// ---- result comparison -----------------------------------------------------------------------------------

func findTag(dp *measurev1.DataPoint, name string) *modelv1.TagValue {
	for _, tf := range dp.TagFamilies {
		for _, t := range tf.Tags {
			if t.Key == name {
				return t.Value
			}
		}
	}
	return nil
}

func findField(dp *measurev1.DataPoint, name string) *modelv1.FieldValue {
	for _, f := range dp.Fields {
		if f.Name == name {
			return f.Value
		}
	}
	return nil
}

// sameBytes treats nil and empty alike only where the API cannot distinguish them (protobuf bytes).
func sameBytes(a, b []byte) bool { return string(a) == string(b) }

// checkRow compares one returned data point with what was written for row id, bit-exactly.
func (m *measureWorld) checkRow(dp *measurev1.DataPoint, row map[string]any) (string, string) {
	id := vlib.Int(row, "id")
	v := m.vals(id)
	a, b, arr := m.rowTags(id)
	if got := dp.Timestamp.AsTime(); !got.Equal(m.ts(vlib.Int(row, "t"))) {
		return "timestamp", fmt.Sprintf("timestamp %s, written %s", got, m.ts(vlib.Int(row, "t")))
	}
	if m.cfg.Versioned && dp.Version != m.version(vlib.Int(row, "v")) {
		return "version", fmt.Sprintf("version %d, written %d", dp.Version, m.version(vlib.Int(row, "v")))
	}
	if t := findTag(dp, "svc"); t.GetStr().GetValue() != m.seriesName(vlib.Int(row, "s")) {
		return "entity-tag", fmt.Sprintf("svc=%q, written %q", t.GetStr().GetValue(), m.seriesName(vlib.Int(row, "s")))
	}
	if t := findTag(dp, "a"); t.GetInt() == nil || t.GetInt().GetValue() != a {
		return "int-tag", fmt.Sprintf("a=%v, written %d", t, a)
	}
	if t := findTag(dp, "b"); t.GetStr() == nil || t.GetStr().GetValue() != b {
		return "string-tag", fmt.Sprintf("b=%v, written %q", t, b)
	}
	if t := findTag(dp, "arr"); fmt.Sprint(t.GetIntArray().GetValue()) != fmt.Sprint(arr) && !(len(arr) == 0 && len(t.GetIntArray().GetValue()) == 0) {
		return "int-array-tag", fmt.Sprintf("arr=%v, written %v", t.GetIntArray().GetValue(), arr)
	}
	t := findTag(dp, "ps")
	if v.null&1 != 0 {
		if _, isNull := t.GetValue().(*modelv1.TagValue_Null); !isNull && t.GetStr().GetValue() != "" {
			return "null-tag", fmt.Sprintf("ps=%v, written null", t)
		}
	} else if t.GetStr().GetValue() != v.ps {
		return "string-tag-payload", fmt.Sprintf("ps=%.60q (len %d), written %.60q (len %d)", t.GetStr().GetValue(), len(t.GetStr().GetValue()), v.ps, len(v.ps))
	}
	if t = findTag(dp, "pb"); !sameBytes(t.GetBinaryData(), v.pb) {
		return "binary-tag", fmt.Sprintf("pb=%x, written %x", t.GetBinaryData(), v.pb)
	}
	if t = findTag(dp, "pa"); strings.Join(t.GetStrArray().GetValue(), "\x1f") != strings.Join(v.pa, "\x1f") || len(t.GetStrArray().GetValue()) != len(v.pa) {
		return "string-array-tag", fmt.Sprintf("pa=%q, written %q", t.GetStrArray().GetValue(), v.pa)
	}
	if f := findField(dp, "fi"); f.GetInt() == nil || f.GetInt().GetValue() != v.fi {
		return "int-field", fmt.Sprintf("fi=%v, written %d", f, v.fi)
	}
	if f := findField(dp, "ff"); f.GetFloat() == nil || math.Float64bits(f.GetFloat().GetValue()) != math.Float64bits(v.ff) {
		kind := "float-field"
		if v.ff == 0 && math.Signbit(v.ff) {
			kind = "float-field-negative-zero"
		}
		return kind, fmt.Sprintf("ff=%v (bits %x), written %v (bits %x)", f.GetFloat().GetValue(), math.Float64bits(f.GetFloat().GetValue()), v.ff, math.Float64bits(v.ff))
	}
	if f := findField(dp, "fs"); f.GetStr().GetValue() != v.fs {
		return "string-field", fmt.Sprintf("fs=%.60q, written %.60q", f.GetStr().GetValue(), v.fs)
	}
	if f := findField(dp, "fb"); !sameBytes(f.GetBinaryData(), v.fb) {
		return "binary-field", fmt.Sprintf("fb=%x, written %x", f.GetBinaryData(), v.fb)
	}
	return "", ""
}

// matchGroups checks that the response holds exactly one admissible row per expected group and nothing else.
// groups: list of sets of candidate rows (ties); optional: groups that may or may not appear.
func (m *measureWorld) matchGroups(dps []*measurev1.DataPoint, groups []any, optional []any, acked map[int]map[string]any) (string, string) {
	byID := map[int]int{} // row id -> group index
	for gi, g := range groups {
		for _, r := range g.([]any) {
			byID[vlib.Int(vlib.Rec(r), "id")] = gi
		}
	}
	opt := map[int]bool{}
	for _, g := range optional {
		for _, r := range g.([]any) {
			opt[byID[vlib.Int(vlib.Rec(r), "id")]] = true
		}
	}
	seen := map[int]bool{}
	for _, dp := range dps {
		rid := findTag(dp, "rid")
		if rid.GetInt() == nil {
			return "row-without-identity", fmt.Sprintf("returned data point carries no rid tag: %v", dp)
		}
		id := int(rid.GetInt().GetValue())
		row, ok := acked[id]
		if !ok {
			return "phantom-row", fmt.Sprintf("returned row id %d was never written", id)
		}
		gi, ok := byID[id]
		if !ok {
			return "unexpected-row", fmt.Sprintf("row id %d (series %v ts %v version %v) must not be in this result", id, row["s"], row["t"], row["v"])
		}
		if seen[gi] {
			return "duplicate-row-for-key", fmt.Sprintf("two rows returned for series %v ts %v", row["s"], row["t"])
		}
		seen[gi] = true
		if kind, msg := m.checkRow(dp, row); kind != "" {
			return "value-not-as-written:" + kind, fmt.Sprintf("row id %d: %s", id, msg)
		}
	}
	for gi, g := range groups {
		if !seen[gi] && !opt[gi] {
			r := vlib.Rec(g.([]any)[0])
			return "missing-row", fmt.Sprintf("no row returned for series %v ts %v (candidates %d)", r["s"], r["t"], len(g.([]any)))
		}
	}
	return "", ""
}

func ackedMap(st vlib.State) map[int]map[string]any {
	out := map[int]map[string]any{}
	for _, v := range vlib.List(st, "acked") {
		r := vlib.Rec(v)
		out[vlib.Int(r, "id")] = r
	}
	return out
}

// checkCover runs the covering query after every step and compares with the spec's logical content.
func (m *measureWorld) checkCover(ctx context.Context, st vlib.State, op string, fail func(string, string, ...any)) bool {
	resp, err := m.query(ctx, m.coverReq())
	if err != nil {
		fail("query-failed-after-"+op, "covering query: %v", err)
		return false
	}
	m.res.Inc("cover_queries")
	specDps, ballast := m.splitBallast(resp.DataPoints)
	if m.cfg.Ballast > 0 {
		m.res.Stats["ballast_rows_compared"] += len(ballast)
		if sig, msg := m.checkBallast(ballast, ackedMap(st)); sig != "" {
			fail(sig+"-after-"+op, "%s", msg)
			return false
		}
	}
	if sig, msg := m.matchGroups(specDps, vlib.List(st, "view"), nil, ackedMap(st)); sig != "" {
		if strings.HasSuffix(sig, "negative-zero") {
			fail(sig, "%s (after %s)", msg, op) // one root cause whatever the step: the decimal float column drops the sign of zero
			return false
		}
		fail(sig+"-after-"+op, "%s", msg)
		return false
	}
	return true
}

var binOps = map[string]modelv1.Condition_BinaryOp{
	"eq": modelv1.Condition_BINARY_OP_EQ, "ne": modelv1.Condition_BINARY_OP_NE, "lt": modelv1.Condition_BINARY_OP_LT,
	"le": modelv1.Condition_BINARY_OP_LE, "gt": modelv1.Condition_BINARY_OP_GT, "ge": modelv1.Condition_BINARY_OP_GE,
	"in": modelv1.Condition_BINARY_OP_IN, "notin": modelv1.Condition_BINARY_OP_NOT_IN,
	"having": modelv1.Condition_BINARY_OP_HAVING, "nothaving": modelv1.Condition_BINARY_OP_NOT_HAVING,
}

func leafCriteria(c map[string]any) *modelv1.Criteria {
	op := vlib.Str(c, "op")
	if op == "true" {
		return nil
	}
	tag := vlib.Str(c, "tag")
	vs := vlib.Ints(vlib.List(c, "v"))
	sort.Ints(vs)
	var val *modelv1.TagValue
	multi := op == "in" || op == "notin" || op == "having" || op == "nothaving"
	if multi && len(vs) > 0 && (vs[0]+len(vs))%2 == 1 {
		// a literal list means the set of its elements: a repeated element must not change the answer
		vs = append(vs, vs[0])
	}
	switch {
	case tag == "b" && multi:
		var ss []string
		for _, x := range vs {
			ss = append(ss, fmt.Sprintf("b%02d", x))
		}
		val = &modelv1.TagValue{Value: &modelv1.TagValue_StrArray{StrArray: &modelv1.StrArray{Value: ss}}}
	case tag == "b":
		val = tagStr(fmt.Sprintf("b%02d", vs[0]))
	case multi:
		var is []int64
		for _, x := range vs {
			is = append(is, int64(x))
		}
		val = &modelv1.TagValue{Value: &modelv1.TagValue_IntArray{IntArray: &modelv1.IntArray{Value: is}}}
	default:
		val = tagInt(int64(vs[0]))
	}
	return &modelv1.Criteria{Exp: &modelv1.Criteria_Condition{Condition: &modelv1.Condition{Name: tag, Op: binOps[op], Value: val}}}
}

func criteriaOf(c map[string]any) *modelv1.Criteria {
	conn := vlib.Str(c, "conn")
	l := leafCriteria(vlib.Map(c, "c1"))
	if conn == "one" {
		return l
	}
	r := leafCriteria(vlib.Map(c, "c2"))
	op := modelv1.LogicalExpression_LOGICAL_OP_AND
	if conn == "or" {
		op = modelv1.LogicalExpression_LOGICAL_OP_OR
	}
	return &modelv1.Criteria{Exp: &modelv1.Criteria_Le{Le: &modelv1.LogicalExpression{Op: op, Left: l, Right: r}}}
}

func (m *measureWorld) checkQuery(ctx context.Context, st vlib.State, ev map[string]any, fail func(string, string, ...any)) bool {
	q := vlib.Map(ev, "q")
	req := m.coverReq()
	req.TimeRange = &modelv1.TimeRange{Begin: timestamppb.New(m.ts(vlib.Int(q, "lo"))), End: timestamppb.New(m.ts(vlib.Int(q, "hi")).Add(time.Millisecond))}
	req.Criteria = criteriaOf(vlib.Map(q, "crit"))
	// series selection is expressed through the entity tag
	series := vlib.Ints(vlib.List(q, "series"))
	if len(series) >= 1 {
		ent := &modelv1.Criteria{Exp: &modelv1.Criteria_Condition{Condition: &modelv1.Condition{Name: "svc", Op: modelv1.Condition_BINARY_OP_EQ, Value: tagStr(m.seriesName(series[0]))}}}
		if len(series) > 1 {
			var names []string
			for _, sr := range series {
				names = append(names, m.seriesName(sr))
			}
			ent = &modelv1.Criteria{Exp: &modelv1.Criteria_Condition{Condition: &modelv1.Condition{Name: "svc", Op: modelv1.Condition_BINARY_OP_IN,
				Value: &modelv1.TagValue{Value: &modelv1.TagValue_StrArray{StrArray: &modelv1.StrArray{Value: names}}}}}}
		}
		if req.Criteria == nil {
			req.Criteria = ent
		} else {
			req.Criteria = &modelv1.Criteria{Exp: &modelv1.Criteria_Le{Le: &modelv1.LogicalExpression{Op: modelv1.LogicalExpression_LOGICAL_OP_AND, Left: ent, Right: req.Criteria}}}
		}
	}
	ordered := vlib.Str(q, "order") == "time"
	if ordered {
		srt := modelv1.Sort_SORT_ASC
		if !vlib.Bool(q, "asc") {
			srt = modelv1.Sort_SORT_DESC
		}
		req.OrderBy = &modelv1.QueryOrder{Sort: srt}
		req.Offset = uint32(vlib.Int(q, "offset"))
		if l := vlib.Int(q, "limit"); l > 0 {
			req.Limit = uint32(l)
		}
	}
	resp, err := m.query(ctx, req)
	m.res.Inc("criteria_queries")
	desc := vlib.Canon(q)
	if err != nil {
		fail("query-rejected:"+vlib.Str(vlib.Map(vlib.Map(q, "crit"), "c1"), "op"), "query %s failed: %v", desc, err)
		return false
	}
	if ordered {
		return m.checkWindow(resp.DataPoints, q, ev, st, desc, fail)
	}
	if sig, msg := m.matchGroups(resp.DataPoints, vlib.List(ev, "groups"), vlib.List(ev, "ambiguous"), ackedMap(st)); sig != "" {
		c1 := vlib.Map(vlib.Map(q, "crit"), "c1")
		fail(sig+"-in-query:"+vlib.Str(c1, "op")+":"+vlib.Str(c1, "tag")+":"+m.cfg.Index, "%s; query %s", msg, desc)
		return false
	}
	_ = proto.Equal
	return true
}

// checkWindow verifies an ordered query with offset/limit: the rows are admissible rows of the full result, no key
// twice, in the requested order, and the sequence of their sort keys is exactly the spec's window of sort keys.
func (m *measureWorld) checkWindow(dps []*measurev1.DataPoint, q, ev map[string]any, st vlib.State, desc string, fail func(string, string, ...any)) bool {
	tag := ":" + map[bool]string{true: "asc", false: "desc"}[vlib.Bool(q, "asc")]
	if len(vlib.List(ev, "ambiguous")) > 0 {
		m.res.Inc("window_queries_skipped_ambiguous")
		return true
	}
	m.res.Inc("window_queries")
	// every returned row must belong to the full result (all groups optional: a window returns a part of them)
	if sig, msg := m.matchGroups(dps, vlib.List(ev, "groups"), vlib.List(ev, "groups"), ackedMap(st)); sig != "" {
		fail(sig+"-in-ordered-query"+tag, "%s; query %s", msg, desc)
		return false
	}
	want := vlib.Ints(vlib.List(ev, "wkeys"))
	var got []int
	for _, dp := range dps {
		got = append(got, int(dp.Timestamp.AsTime().Sub(m.base)/time.Minute))
	}
	if fmt.Sprint(got) != fmt.Sprint(want) {
		kind := "window-differs"
		sorted := sort.SliceIsSorted(got, func(i, j int) bool {
			if vlib.Bool(q, "asc") {
				return got[i] < got[j]
			}
			return got[i] > got[j]
		})
		switch {
		case !sorted:
			kind = "result-not-sorted"
		case len(got) != len(want):
			kind = "window-size-differs"
		}
		fail(kind+tag, "ordered by time %s offset=%d limit=%d: sort keys returned %v, spec window %v; query %s", tag[1:], vlib.Int(q, "offset"), vlib.Int(q, "limit"), got, want, desc)
		return false
	}
	return true
}
