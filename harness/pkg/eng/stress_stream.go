package main

import (
	"context"
	"encoding/json"
	"fmt"
	"os"
	"path/filepath"
	"sync"
	"sync/atomic"
	"time"

	"google.golang.org/protobuf/types/known/timestamppb"

	modelv1 "github.com/apache/skywalking-banyandb/api/proto/banyandb/model/v1"
	"github.com/apache/skywalking-banyandb/banyand/stream"
	"github.com/apache/skywalking-banyandb/banyand/verifharness/vlib"
)

// runStreamStress is the stream twin of runStress: real introducer / flusher / merger loops of the stream engine with a
// tiny flush timeout, writer and query clients over gRPC, life-cycle events from the hooks in banyand/stream
// (-> spec/TSTableTrace.tla) and the client-side visibility log (-> spec/VisibilityTrace.tla).
func runStreamStress(sc stressCfg, res *vlib.Result) {
	stream.VerifSetManual(false)
	stream.VerifSetChaos(true)
	flags := []string{"--stream-flush-timeout=40ms", "--logging-level=error"}
	if sc.RowPath {
		flags = append(flags, "--stream-vectorized-enabled=false")
	}
	srv, err := startServer(flags)
	if err != nil {
		res.Inconclusive = append(res.Inconclusive, "server: "+err.Error())
		return
	}
	ctx := context.Background()
	m := newStreamWorld(srv, config{RowTags: map[string]map[string]any{}, Index: "none"}, fmt.Sprintf("vfs%d", os.Getpid()), res)
	if err = m.setup(ctx); err != nil {
		res.Inconclusive = append(res.Inconclusive, "setup: "+err.Error())
		return
	}
	vf, err := os.Create(sc.Visibility)
	if err != nil {
		res.Inconclusive = append(res.Inconclusive, err.Error())
		return
	}
	defer vf.Close()
	vis := &visLog{enc: json.NewEncoder(vf)}
	if err = stream.VerifStartTrace(sc.Lifecycle); err != nil {
		res.Inconclusive = append(res.Inconclusive, err.Error())
		return
	}
	var batchSeq atomic.Int64
	var stop atomic.Bool
	var wg sync.WaitGroup
	var failed atomic.Pointer[string]
	fail := func(s string) { failed.CompareAndSwap(nil, &s) }
	for w := 0; w < sc.Writers; w++ {
		wg.Add(1)
		go func(w int) {
			defer wg.Done()
			mw := *m // own message counter and maps
			mw.pids, mw.eids, mw.eidOwner = map[int]uint64{}, map[int]string{}, map[string]int{}
			mw.msgID = uint64(w+1) << 32
			for !stop.Load() {
				b := int(batchSeq.Add(1))
				var rows []map[string]any
				for i := 0; i < sc.BatchRows; i++ {
					rows = append(rows, map[string]any{"id": float64(b*100 + i), "s": float64(10 + w), "t": float64(0), "v": float64(1), "sec": float64(b*8 + i), "batch": float64(b)})
				}
				vis.emit(map[string]any{"event": "WriteBegin", "batch": b, "rows": sc.BatchRows})
				if werr := mw.write(ctx, rows); werr != nil {
					fail("write: " + werr.Error())
					return
				}
				vis.emit(map[string]any{"event": "WriteAck", "batch": b})
				time.Sleep(4 * time.Millisecond)
			}
		}(w)
	}
	for r := 0; r < sc.Readers; r++ {
		wg.Add(1)
		go func(r int) {
			defer wg.Done()
			q := 0
			for !stop.Load() {
				q++
				qid := r*1000000 + q
				vis.emit(map[string]any{"event": "QueryBegin", "q": qid})
				req := m.coverReq()
				req.TimeRange = &modelv1.TimeRange{Begin: timestamppb.New(m.base.Add(-time.Hour)), End: timestamppb.New(m.base.Add(20 * time.Hour))}
				resp, qerr := m.query(ctx, req)
				if qerr != nil {
					vis.emit(map[string]any{"event": "QueryFailed", "q": qid, "err": qerr.Error()})
					fail("query failed while maintenance runs: " + qerr.Error())
					return
				}
				counts := map[int]int{}
				for _, e := range resp.Elements {
					rid := int(streamFindTag(e, "rid").GetInt().GetValue())
					counts[rid/100]++
				}
				seen := make([][2]int, 0, len(counts))
				for b, n := range counts {
					seen = append(seen, [2]int{b, n})
				}
				vis.emit(map[string]any{"event": "QueryEnd", "q": qid, "seen": seen})
				time.Sleep(2 * time.Millisecond)
			}
		}(r)
	}
	var snaps atomic.Int64
	if sc.Snapshots {
		wg.Add(1)
		go func() {
			defer wg.Done()
			dir, _ := os.MkdirTemp("", "verif-snap")
			defer os.RemoveAll(dir)
			n := 0
			for !stop.Load() {
				time.Sleep(15 * time.Millisecond)
				for _, root := range stream.VerifTableRoots("/" + m.group + "/") {
					n++
					dst := filepath.Join(dir, fmt.Sprintf("s%d", n))
					if serr := stream.VerifTakeFileSnapshot(root, dst); serr != nil {
						fail("file snapshot: " + serr.Error())
						return
					}
					snaps.Add(1)
					_ = os.RemoveAll(dst)
				}
			}
		}()
	}
	time.Sleep(time.Duration(sc.Millis) * time.Millisecond)
	stop.Store(true)
	wg.Wait()
	time.Sleep(300 * time.Millisecond)
	m.teardown(ctx)
	time.Sleep(300 * time.Millisecond)
	res.Stats["lifecycle_events"] = stream.VerifStopTrace()
	res.Stats["visibility_events"] = vis.n
	res.Stats["batches"] = int(batchSeq.Load())
	res.Stats["file_snapshots"] = int(snaps.Load())
	res.Behaviours = 1
	res.Steps = res.Stats["lifecycle_events"] + vis.n
	if f := failed.Load(); f != nil {
		res.Violate(0, 0, "operation-failed-under-concurrency", "%s", *f)
	}
}
