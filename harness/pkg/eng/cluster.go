package main

// C17 (b): a cluster answers like a stand-alone server.
//
// Engine "measure-cluster" replays every spec/Engine.tla behaviour SIMULTANEOUSLY on
//   - the in-process stand-alone server that main.go starts for every engine (the reference), and
//   - an in-process cluster (N data nodes + 1 liaison, property-based schema registry, file-based node discovery,
//     no etcd) started once per harness process,
// over the public gRPC API of both.  Every write step is one write stream per system; after it the harness waits until
// the liaison's write queue has been DELIVERED (covering query of the cluster equals the spec's logical content AND the
// liaison reports no pending write / pending sync part for the group through GroupRegistryService.Inspect) and then
// compares the covering query of both systems with the spec state (`view`); QueryAll steps run every criteria / ordered
// query on both systems and compare each answer with the spec's answer.
//
// Time slots of the model are mapped onto TWO day segments (slots <= clusterSplitSlot on the previous day), so that one
// write stream produces memory parts of two segments in one liaison flush window and a row filed under the wrong
// segment is missed by the range-restricted queries.  The mapping is monotone: the spec's ordered windows stay valid.
//
// The maintenance loops of BOTH systems run on their own here (the manual-maintenance gate of the measure package is
// process-global and would park the liaison's queue flusher as well): flush / merge steps of a behaviour only re-check
// the covering queries.

import (
	"context"
	"fmt"
	"hash/crc32"
	"io"
	"os"
	"path/filepath"
	"strconv"
	"strings"
	"sync"
	"time"

	"github.com/onsi/gomega"
	"google.golang.org/grpc"
	"google.golang.org/grpc/credentials/insecure"
	"google.golang.org/protobuf/proto"
	"google.golang.org/protobuf/types/known/durationpb"
	"google.golang.org/protobuf/types/known/timestamppb"

	commonv1 "github.com/apache/skywalking-banyandb/api/proto/banyandb/common/v1"
	databasev1 "github.com/apache/skywalking-banyandb/api/proto/banyandb/database/v1"
	measurev1 "github.com/apache/skywalking-banyandb/api/proto/banyandb/measure/v1"
	modelv1 "github.com/apache/skywalking-banyandb/api/proto/banyandb/model/v1"
	schemav1 "github.com/apache/skywalking-banyandb/api/proto/banyandb/schema/v1"
	"github.com/apache/skywalking-banyandb/banyand/measure"
	"github.com/apache/skywalking-banyandb/banyand/verifharness/vlib"
	"github.com/apache/skywalking-banyandb/pkg/test"
	testflags "github.com/apache/skywalking-banyandb/pkg/test/flags"
	"github.com/apache/skywalking-banyandb/pkg/test/helpers"
	"github.com/apache/skywalking-banyandb/pkg/test/setup"
)

const (
	clusterEngine    = "measure-cluster"
	clusterSplitSlot = 2 // time slots 1..2 lie on the previous day, slots > 2 on the base day

	// liaison write queue: memory parts are flushed after clusterFlushTimeout, file parts shipped every clusterSyncInterval
	clusterFlushTimeout = "50ms"
	clusterSyncInterval = "100ms"
	// the stand-alone reference runs its real flusher / merger loops as well
	standaloneFlushTimeout = "100ms"

	deliverDeadline   = 30 * time.Second // overall budget for one write step to become visible in the cluster
	deliverStableFail = 10 * time.Second // a wrong answer that persists this long while the liaison queue is empty is final
	requeryBudget     = 10 * time.Second // a differing criteria / ordered answer of the cluster is re-queried for this long
	pollInterval      = 20 * time.Millisecond
)

// topology of the cluster; encoded in the engine name: measure-cluster[-<N>n<S>s<R>r]
type topo struct{ nodes, shards, replicas int }

func parseTopo(engine string) topo {
	t := topo{nodes: 2, shards: 2, replicas: 0}
	if rest := strings.TrimPrefix(engine, clusterEngine+"-"); rest != engine {
		_, _ = fmt.Sscanf(rest, "%dn%ds%dr", &t.nodes, &t.shards, &t.replicas)
	}
	return t
}

func init() {
	names := []string{clusterEngine}
	for n := 1; n <= 3; n++ {
		for _, s := range []int{1, 2, 4} {
			for r := 0; r <= 1 && r < n; r++ {
				names = append(names, fmt.Sprintf("%s-%dn%ds%dr", clusterEngine, n, s, r))
			}
		}
	}
	for _, name := range names {
		engines[name] = func(srv *server, cfg config, group string, res *vlib.Result) world {
			return newClusterWorld(srv, cfg, group, res)
		}
		engineInit[name] = func() []string {
			measure.VerifSetManual(false)
			return []string{"--measure-flush-timeout=" + standaloneFlushTimeout}
		}
	}
}

// ---- the in-process cluster (one per harness process) ------------------------------------------------------

type clusterEnv struct {
	conn        *grpc.ClientConn
	addr        string
	liaisonRoot string
	dataRoots   []string
	flags       []string
	topo        topo
	startMS     int
}

var (
	clusterOnce sync.Once
	clusterInst *clusterEnv
	clusterErr  error
)

// removeStaleScratch deletes the scratch directories of harness processes that no longer exist (this process leaves
// through os.Exit in main and cannot remove its own).
func removeStaleScratch() {
	ents, err := os.ReadDir(os.TempDir())
	if err != nil {
		return
	}
	for _, e := range ents {
		rest := strings.TrimPrefix(e.Name(), "vf-c17b-")
		if rest == e.Name() {
			continue
		}
		pid, perr := strconv.Atoi(strings.SplitN(rest, "-", 2)[0])
		if perr != nil || pid == os.Getpid() {
			continue
		}
		if _, serr := os.Stat(fmt.Sprintf("/proc/%d", pid)); os.IsNotExist(serr) {
			_ = os.RemoveAll(filepath.Join(os.TempDir(), e.Name()))
		}
	}
}

func startCluster(tp topo) (env *clusterEnv, err error) {
	defer func() {
		if r := recover(); r != nil {
			err = fmt.Errorf("cluster start failed: %v", r)
		}
	}()
	removeStaleScratch()
	t0 := time.Now()
	root, merr := os.MkdirTemp("", fmt.Sprintf("vf-c17b-%d-", os.Getpid()))
	if merr != nil {
		return nil, merr
	}
	env = &clusterEnv{topo: tp}
	dfw := setup.NewDiscoveryFileWriter(root)
	cc := setup.PropertyClusterConfig(dfw)
	for i := 0; i < tp.nodes; i++ {
		dir := filepath.Join(root, fmt.Sprintf("data%d", i))
		if merr = os.MkdirAll(dir, 0o755); merr != nil {
			return nil, merr
		}
		setup.DataNodeFromDataDir(cc, dir, "--logging-level=error", "--measure-flush-timeout="+standaloneFlushTimeout)
		env.dataRoots = append(env.dataRoots, dir)
	}
	// the liaison: same flags as pkg/test/setup.startLiaisonNode, except for the write-queue intervals, which that
	// function fixes at 500ms / 1s (its flags come last and would override ours)
	env.liaisonRoot = filepath.Join(root, "liaison")
	if merr = os.MkdirAll(env.liaisonRoot, 0o755); merr != nil {
		return nil, merr
	}
	ports, perr := test.AllocateFreePorts(3)
	if perr != nil {
		return nil, perr
	}
	env.addr = fmt.Sprintf("localhost:%d", ports[0])
	httpAddr := fmt.Sprintf("localhost:%d", ports[1])
	flushTimeout := clusterFlushTimeout
	if v := os.Getenv("VERIF_CLUSTER_FLUSH"); v != "" {
		flushTimeout = v // a longer window lets back-to-back batches pile up in one flush round of the liaison
	}
	env.flags = []string{
		"--measure-flush-timeout=" + flushTimeout, "--measure-sync-interval=" + clusterSyncInterval,
		"--stream-flush-timeout=" + clusterFlushTimeout, "--stream-sync-interval=" + clusterSyncInterval,
		"--trace-flush-timeout=" + clusterFlushTimeout, "--trace-sync-interval=" + clusterSyncInterval,
	}
	lf := append([]string{"liaison", "--logging-level=error",
		"--grpc-host=localhost", fmt.Sprintf("--grpc-port=%d", ports[0]),
		"--http-host=localhost", fmt.Sprintf("--http-port=%d", ports[1]),
		"--liaison-server-grpc-host=localhost", fmt.Sprintf("--liaison-server-grpc-port=%d", ports[2]),
		"--http-grpc-addr=" + env.addr,
		"--node-host-provider=flag", "--node-host=127.0.0.1",
		"--stream-root-path=" + env.liaisonRoot, "--measure-root-path=" + env.liaisonRoot, "--trace-root-path=" + env.liaisonRoot,
		"--schema-registry-mode=" + cc.SchemaRegistry.Mode, "--node-discovery-mode=" + cc.NodeDiscovery.Mode,
		"--node-discovery-file-path=" + dfw.Path(),
	}, env.flags...)
	setup.CMD(lf...)
	gomega.Eventually(helpers.HTTPHealthCheck(httpAddr, ""), testflags.EventuallyTimeout).Should(gomega.Succeed())
	dfw.AddNode(fmt.Sprintf("127.0.0.1:%d", ports[2]), fmt.Sprintf("127.0.0.1:%d", ports[2]))
	conn, cerr := grpc.NewClient(env.addr, grpc.WithTransportCredentials(insecure.NewCredentials()),
		grpc.WithDefaultCallOptions(grpc.MaxCallRecvMsgSize(256<<20), grpc.MaxCallSendMsgSize(256<<20)))
	if cerr != nil {
		return nil, cerr
	}
	env.conn = conn
	// every data node must be active in the liaison's route table before the first group is created
	csc := databasev1.NewClusterStateServiceClient(conn)
	deadline := time.Now().Add(testflags.EventuallyTimeout)
	for {
		cctx, cancel := context.WithTimeout(context.Background(), 5*time.Second)
		st, serr := csc.GetClusterState(cctx, &databasev1.GetClusterStateRequest{})
		cancel()
		if serr == nil {
			t1, t2 := st.GetRouteTables()["tire1"], st.GetRouteTables()["tire2"]
			if len(t1.GetActive()) >= 1 && len(t2.GetActive()) >= tp.nodes {
				break
			}
			serr = fmt.Errorf("tire1 active %v, tire2 active %v", t1.GetActive(), t2.GetActive())
		}
		if time.Now().After(deadline) {
			return nil, fmt.Errorf("data nodes did not become active in the liaison's route table: %v", serr)
		}
		time.Sleep(50 * time.Millisecond)
	}
	env.startMS = int(time.Since(t0) / time.Millisecond)
	return env, nil
}

// ---- world -----------------------------------------------------------------------------------------------------

// clusterWorld embeds the measure world for the stand-alone side and for the concretisation (values, versions,
// series names, tag table, result matching); everything that depends on the time mapping is defined here.
type clusterWorld struct {
	*measureWorld
	env  *clusterEnv
	err  error
	topo topo
	mid  uint64
}

func newClusterWorld(srv *server, cfg config, group string, res *vlib.Result) *clusterWorld {
	tp := parseTopo(cfg.Engine)
	clusterOnce.Do(func() {
		clusterInst, clusterErr = startCluster(tp)
		if clusterErr == nil {
			res.Stats["cluster_starts"]++
			res.Stats["cluster_start_ms"] += clusterInst.startMS
		}
	})
	return &clusterWorld{measureWorld: newMeasureWorld(srv, cfg, group, res), env: clusterInst, err: clusterErr, topo: tp}
}

// ts2 maps a model time slot to an instant: slots <= clusterSplitSlot on the day before the base day.
func (w *clusterWorld) ts2(t int) time.Time {
	if t <= clusterSplitSlot {
		return w.base.Add(-24*time.Hour + time.Duration(t)*time.Minute)
	}
	return w.base.Add(time.Duration(t) * time.Minute)
}

func (w *clusterWorld) slotOf(x time.Time) (int, bool) {
	for _, off := range []time.Duration{-24 * time.Hour, 0} {
		d := x.Sub(w.base.Add(off))
		if d < 0 || d%time.Minute != 0 || d >= 12*time.Hour {
			continue
		}
		t := int(d / time.Minute)
		if (t <= clusterSplitSlot) == (off != 0) {
			return t, true
		}
	}
	return 0, false
}

// normalise translates returned data points from the two-day time axis into the time axis of the embedded measure
// world, whose matchGroups / checkRow / checkWindow are then used unchanged.  A returned instant that is not the image
// of a time slot was never written.
func (w *clusterWorld) normalise(dps []*measurev1.DataPoint) ([]*measurev1.DataPoint, string) {
	out := make([]*measurev1.DataPoint, 0, len(dps))
	for _, dp := range dps {
		slot, ok := w.slotOf(dp.GetTimestamp().AsTime())
		if !ok {
			return nil, fmt.Sprintf("returned timestamp %s was never written (rid %v)", dp.GetTimestamp().AsTime(), findTag(dp, "rid"))
		}
		c := proto.Clone(dp).(*measurev1.DataPoint)
		c.Timestamp = timestamppb.New(w.measureWorld.ts(slot))
		out = append(out, c)
	}
	return out, ""
}

func (w *clusterWorld) createSchema(ctx context.Context, conn *grpc.ClientConn) error {
	gc := databasev1.NewGroupRegistryServiceClient(conn)
	if _, err := gc.Create(ctx, &databasev1.GroupRegistryServiceCreateRequest{Group: &commonv1.Group{
		Metadata: &commonv1.Metadata{Name: w.group},
		Catalog:  commonv1.Catalog_CATALOG_MEASURE,
		ResourceOpts: &commonv1.ResourceOpts{
			ShardNum:        uint32(w.topo.shards),
			Replicas:        uint32(w.topo.replicas),
			SegmentInterval: &commonv1.IntervalRule{Unit: commonv1.IntervalRule_UNIT_DAY, Num: 1},
			Ttl:             &commonv1.IntervalRule{Unit: commonv1.IntervalRule_UNIT_DAY, Num: 30},
		},
	}}); err != nil {
		return fmt.Errorf("create group: %w", err)
	}
	z := databasev1.CompressionMethod_COMPRESSION_METHOD_ZSTD
	g := databasev1.EncodingMethod_ENCODING_METHOD_GORILLA
	if _, err := databasev1.NewMeasureRegistryServiceClient(conn).Create(ctx, &databasev1.MeasureRegistryServiceCreateRequest{Measure: &databasev1.Measure{
		Metadata: &commonv1.Metadata{Name: measureName, Group: w.group},
		TagFamilies: []*databasev1.TagFamilySpec{{Name: "default", Tags: []*databasev1.TagSpec{
			{Name: "svc", Type: databasev1.TagType_TAG_TYPE_STRING},
			{Name: "rid", Type: databasev1.TagType_TAG_TYPE_INT},
			{Name: "a", Type: databasev1.TagType_TAG_TYPE_INT},
			{Name: "b", Type: databasev1.TagType_TAG_TYPE_STRING},
			{Name: "arr", Type: databasev1.TagType_TAG_TYPE_INT_ARRAY},
			{Name: "ps", Type: databasev1.TagType_TAG_TYPE_STRING},
			{Name: "pb", Type: databasev1.TagType_TAG_TYPE_DATA_BINARY},
			{Name: "pa", Type: databasev1.TagType_TAG_TYPE_STRING_ARRAY},
		}}},
		Fields: []*databasev1.FieldSpec{
			{Name: "fi", FieldType: databasev1.FieldType_FIELD_TYPE_INT, EncodingMethod: g, CompressionMethod: z},
			{Name: "ff", FieldType: databasev1.FieldType_FIELD_TYPE_FLOAT, EncodingMethod: g, CompressionMethod: z},
			{Name: "fs", FieldType: databasev1.FieldType_FIELD_TYPE_STRING, EncodingMethod: g, CompressionMethod: z},
			{Name: "fb", FieldType: databasev1.FieldType_FIELD_TYPE_DATA_BINARY, EncodingMethod: g, CompressionMethod: z},
		},
		Entity:   &databasev1.Entity{TagNames: []string{"svc"}},
		Interval: "1m",
	}}); err != nil {
		return fmt.Errorf("create measure: %w", err)
	}
	if w.cfg.Index == "inverted" {
		ic := databasev1.NewIndexRuleRegistryServiceClient(conn)
		for _, t := range []string{"a", "b"} {
			if _, err := ic.Create(ctx, &databasev1.IndexRuleRegistryServiceCreateRequest{IndexRule: &databasev1.IndexRule{
				Metadata: &commonv1.Metadata{Name: "idx-" + t, Group: w.group}, Tags: []string{t}, Type: databasev1.IndexRule_TYPE_INVERTED,
			}}); err != nil {
				return fmt.Errorf("create index rule: %w", err)
			}
		}
		if _, err := databasev1.NewIndexRuleBindingRegistryServiceClient(conn).Create(ctx, &databasev1.IndexRuleBindingRegistryServiceCreateRequest{IndexRuleBinding: &databasev1.IndexRuleBinding{
			Metadata: &commonv1.Metadata{Name: "bind", Group: w.group}, Rules: []string{"idx-a", "idx-b"},
			Subject: &databasev1.Subject{Catalog: commonv1.Catalog_CATALOG_MEASURE, Name: measureName},
			BeginAt: timestamppb.New(w.base.Add(-48 * time.Hour)), ExpireAt: timestamppb.New(w.base.Add(24 * 365 * time.Hour)),
		}}); err != nil {
			return fmt.Errorf("create binding: %w", err)
		}
	}
	return nil
}

// settle waits until the schema is served: three consecutive answered probes.
func (w *clusterWorld) settle(ctx context.Context, conn *grpc.ClientConn, what string, budget time.Duration) error {
	deadline := time.Now().Add(budget)
	probe := w.coverReq2()
	if w.cfg.Index != "none" && w.cfg.Index != "" {
		probe.Criteria = &modelv1.Criteria{Exp: &modelv1.Criteria_Condition{Condition: &modelv1.Condition{Name: "b", Op: modelv1.Condition_BINARY_OP_EQ, Value: tagStr("none")}}}
	}
	settled := 0
	for {
		_, qerr := w.queryOn(ctx, conn, probe)
		if qerr == nil {
			settled++
			if settled >= 3 {
				return nil
			}
			time.Sleep(10 * time.Millisecond)
			continue
		}
		settled = 0
		if time.Now().After(deadline) {
			return fmt.Errorf("%s: schema not served after %s: %w", what, budget, qerr)
		}
		time.Sleep(20 * time.Millisecond)
	}
}

func (w *clusterWorld) setup(ctx context.Context) error {
	if w.err != nil {
		return w.err
	}
	if w.env == nil {
		return fmt.Errorf("no cluster")
	}
	if err := w.createSchema(ctx, w.srv.conn); err != nil {
		return fmt.Errorf("stand-alone: %w", err)
	}
	if err := w.createSchema(ctx, w.env.conn); err != nil {
		return fmt.Errorf("cluster: %w", err)
	}
	if err := w.settle(ctx, w.srv.conn, "stand-alone", 20*time.Second); err != nil {
		return err
	}
	// the public barrier: every node of the cluster has applied the group and the measure
	keys := []*schemav1.SchemaKey{{Kind: "group", Name: w.group}, {Kind: "measure", Group: w.group, Name: measureName}}
	bctx, cancel := context.WithTimeout(ctx, 60*time.Second)
	resp, berr := schemav1.NewSchemaBarrierServiceClient(w.env.conn).AwaitSchemaApplied(bctx, &schemav1.AwaitSchemaAppliedRequest{
		Keys: keys, MinRevisions: []int64{0, 0}, Timeout: durationpb.New(45 * time.Second)})
	cancel()
	switch {
	case berr != nil:
		w.res.Inc("cluster_barrier_errors") // the probes below decide
	case !resp.GetApplied():
		return fmt.Errorf("cluster: schema barrier not reached after 45s: laggards %v", resp.GetLaggards())
	}
	return w.settle(ctx, w.env.conn, "cluster", 45*time.Second)
}

func (w *clusterWorld) teardown(ctx context.Context) {
	for _, conn := range []*grpc.ClientConn{w.srv.conn, w.env.conn} {
		cctx, cancel := context.WithTimeout(ctx, 10*time.Second)
		_, _ = databasev1.NewGroupRegistryServiceClient(conn).Delete(cctx, &databasev1.GroupRegistryServiceDeleteRequest{Group: w.group})
		cancel()
	}
}

func (w *clusterWorld) queryOn(ctx context.Context, conn *grpc.ClientConn, req *measurev1.QueryRequest) (*measurev1.QueryResponse, error) {
	cctx, cancel := context.WithTimeout(ctx, 30*time.Second)
	defer cancel()
	return measurev1.NewMeasureServiceClient(conn).Query(cctx, req)
}

// coverReq2 covers both days.
func (w *clusterWorld) coverReq2() *measurev1.QueryRequest {
	req := w.coverReq()
	req.TimeRange = &modelv1.TimeRange{Begin: timestamppb.New(w.base.Add(-25 * time.Hour)), End: timestamppb.New(w.base.Add(12 * time.Hour))}
	return req
}

// writeTo sends one batch as one write stream and waits for every acknowledgement.
func (w *clusterWorld) writeTo(ctx context.Context, conn *grpc.ClientConn, rows []map[string]any, cluster bool) error {
	cctx, cancel := context.WithTimeout(ctx, 30*time.Second)
	defer cancel()
	// binding self-test (checks/c17b.py): damage what the CLUSTER receives; the check must then report the cluster
	selftest := ""
	if cluster {
		selftest = os.Getenv("VERIF_C17B_SELFTEST")
	}
	if selftest == "drop" && len(rows) >= 2 {
		rows = rows[:len(rows)-1] // the last row of the batch never reaches the cluster
	}
	st, err := measurev1.NewMeasureServiceClient(conn).Write(cctx)
	if err != nil {
		return err
	}
	md := &commonv1.Metadata{Name: measureName, Group: w.group}
	for _, r := range rows {
		w.mid++
		dp := w.dataPoint(r)
		dp.Timestamp = timestamppb.New(w.ts2(vlib.Int(r, "t")))
		if selftest == "wrongday" && vlib.Int(r, "t") <= clusterSplitSlot {
			dp.Timestamp = timestamppb.New(w.ts2(vlib.Int(r, "t")).Add(24 * time.Hour)) // filed under the other day segment
		}
		if err = st.Send(&measurev1.WriteRequest{Metadata: md, DataPoint: dp, MessageId: w.mid}); err != nil {
			return err
		}
	}
	if err = st.CloseSend(); err != nil {
		return err
	}
	acks := 0
	for {
		resp, rerr := st.Recv()
		if rerr == io.EOF {
			break
		}
		if rerr != nil {
			return rerr
		}
		if resp.Status != modelv1.Status_STATUS_SUCCEED.String() {
			return fmt.Errorf("VIOLATION write not acknowledged: status %s", resp.Status)
		}
		acks++
	}
	if acks != len(rows) {
		return fmt.Errorf("VIOLATION %d acknowledgements for %d data points", acks, len(rows))
	}
	return nil
}

// coverOn runs the covering query on one system and compares it with the spec's logical content.
func (w *clusterWorld) coverOn(ctx context.Context, conn *grpc.ClientConn, st vlib.State) (string, string) {
	resp, err := w.queryOn(ctx, conn, w.coverReq2())
	if err != nil {
		return "query-failed", fmt.Sprintf("covering query: %v", err)
	}
	w.res.Inc("cover_queries")
	dps, bad := w.normalise(resp.DataPoints)
	if bad != "" {
		return "timestamp-never-written", bad
	}
	return w.matchGroups(dps, vlib.List(st, "view"), nil, ackedMap(st))
}

// inspect asks one system (public API GroupRegistryService.Inspect) where the rows of the group are stored and, on the
// cluster, how much of the liaison's write queue is still waiting.
func (w *clusterWorld) inspect(ctx context.Context, conn *grpc.ClientConn) (*databasev1.GroupRegistryServiceInspectResponse, error) {
	cctx, cancel := context.WithTimeout(ctx, 10*time.Second)
	defer cancel()
	return databasev1.NewGroupRegistryServiceClient(conn).Inspect(cctx, &databasev1.GroupRegistryServiceInspectRequest{Group: w.group})
}

func (w *clusterWorld) pending(ctx context.Context) (int64, string, *databasev1.GroupRegistryServiceInspectResponse, error) {
	resp, err := w.inspect(ctx, w.env.conn)
	if err != nil {
		return -1, "", nil, err
	}
	var n int64
	for _, li := range resp.GetLiaisonInfo() {
		n += li.GetPendingWriteDataCount() + li.GetPendingSyncPartCount()
	}
	return n, fmt.Sprintf("liaison pending %d; %s", n, describePlacement(resp)), resp, nil
}

func describePlacement(resp *databasev1.GroupRegistryServiceInspectResponse) string {
	var sb strings.Builder
	for _, di := range resp.GetDataInfo() {
		for _, seg := range di.GetSegmentInfo() {
			for _, sh := range seg.GetShardInfo() {
				fmt.Fprintf(&sb, "%s seg %s shard %d: %d rows in %d parts; ", di.GetNode().GetMetadata().GetName(), seg.GetTimeRangeStart(), sh.GetShardId(), sh.GetDataCount(), sh.GetPartCount())
			}
		}
	}
	return sb.String()
}

type segShard struct {
	seg   string
	shard uint32
}

// placement checks where one system stores the acknowledged rows (as reported by Inspect) against the spec state:
//   - every day segment holds at least one stored row per acknowledged key of that day and at most one per acknowledged
//     row of that day (times the number of copies); a segment whose range contains no written instant holds nothing:
//     a row filed under the wrong time segment breaks the bounds of two segments;
//   - a (segment, shard) pair has rows on at most `copies` nodes: a shard of a group lives on replicas+1 nodes.
//
// It returns the set of (segment, shard) pairs that hold rows.
func (w *clusterWorld) placement(resp *databasev1.GroupRegistryServiceInspectResponse, st vlib.State, copies int) (map[segShard]bool, string, string) {
	type bounds struct{ keys, rows int }
	rowsIn := func(lo, hi int64) bounds {
		keys := map[[2]int]bool{}
		var b bounds
		for _, v := range vlib.List(st, "acked") {
			r := vlib.Rec(v)
			if x := w.ts2(vlib.Int(r, "t")).UnixNano(); x >= lo && x < hi {
				b.rows++
				keys[[2]int{vlib.Int(r, "s"), vlib.Int(r, "t")}] = true
			}
		}
		b.keys = len(keys)
		return b
	}
	total := map[string]int64{}
	nodes := map[segShard]int{}
	for _, di := range resp.GetDataInfo() {
		for _, seg := range di.GetSegmentInfo() {
			for _, sh := range seg.GetShardInfo() {
				if sh.GetDataCount() > 0 {
					total[seg.GetSegmentId()] += sh.GetDataCount()
					nodes[segShard{seg.GetSegmentId(), sh.GetShardId()}]++
				}
			}
		}
	}
	stored := 0
	for id, n := range total {
		var lo, hi int64
		if _, err := fmt.Sscanf(id, "%d-%d", &lo, &hi); err != nil {
			return nil, "inspect-unreadable", fmt.Sprintf("segment id %q", id)
		}
		b := rowsIn(lo, hi)
		if n < int64(b.keys*copies) || n > int64(b.rows*copies) {
			return nil, "rows-per-time-segment-differ", fmt.Sprintf("segment %s stores %d rows, but %d keys / %d rows with a timestamp in its range were acknowledged (%d copies each): %s",
				time.Unix(0, lo).UTC().Format(time.RFC3339), n, b.keys, b.rows, copies, describePlacement(resp))
		}
		stored += b.rows
	}
	if stored != len(vlib.List(st, "acked")) {
		return nil, "rows-missing-from-their-time-segment", fmt.Sprintf("%d acknowledged rows, %d of them in the range of a segment that stores rows: %s", len(vlib.List(st, "acked")), stored, describePlacement(resp))
	}
	set := map[segShard]bool{}
	for k, n := range nodes {
		set[k] = true
		if n > copies {
			return nil, "shard-reported-on-too-many-nodes", fmt.Sprintf("segment %s shard %d has rows on %d nodes, a shard lives on %d: %s", k.seg, k.shard, n, copies, describePlacement(resp))
		}
	}
	return set, "", ""
}

// checkPlacement: both systems store every row in its time segment, and the same (segment, shard) pairs hold rows.
func (w *clusterWorld) checkPlacement(ctx context.Context, st vlib.State, cl *databasev1.GroupRegistryServiceInspectResponse, op string, fail func(string, string, ...any)) bool {
	w.res.Inc("placement_checks")
	sa, err := w.inspect(ctx, w.srv.conn)
	if err != nil {
		fail("standalone-inspect-failed", "%v", err)
		return false
	}
	saSet, sig, msg := w.placement(sa, st, 1)
	if sig != "" {
		fail("standalone-"+sig+"-after-"+op, "%s", msg)
		return false
	}
	clSet, sig, msg := w.placement(cl, st, w.topo.replicas+1)
	if sig != "" {
		fail("cluster-"+sig+"-after-"+op, "%s", msg)
		return false
	}
	for k := range saSet {
		if !clSet[k] {
			fail("cluster-shard-placement-differs-after-"+op, "the stand-alone server stores rows in segment %s shard %d, the cluster does not; stand-alone: %s cluster: %s", k.seg, k.shard, describePlacement(sa), describePlacement(cl))
			return false
		}
	}
	for k := range clSet {
		if !saSet[k] {
			fail("cluster-shard-placement-differs-after-"+op, "the cluster stores rows in segment %s shard %d, the stand-alone server does not; stand-alone: %s cluster: %s", k.seg, k.shard, describePlacement(sa), describePlacement(cl))
			return false
		}
	}
	return true
}

// awaitDelivered waits until the cluster shows the spec's content and the liaison's queue for the group is empty.
func (w *clusterWorld) awaitDelivered(ctx context.Context, st vlib.State, op string, fail func(string, string, ...any)) bool {
	start := time.Now()
	var wrongSince, inspectFailingSince time.Time
	polls := 0
	for {
		polls++
		sig, msg := w.coverOn(ctx, w.env.conn, st)
		n, desc, insp, perr := w.pending(ctx)
		if perr != nil {
			if inspectFailingSince.IsZero() {
				inspectFailingSince = time.Now()
			}
		} else {
			inspectFailingSince = time.Time{}
		}
		if sig == "" {
			wrongSince = time.Time{}
			switch {
			case perr == nil && n == 0:
				ms := int(time.Since(start) / time.Millisecond)
				w.res.Stats["delivery_waits"]++
				w.res.Stats["delivery_wait_ms"] += ms
				w.res.Stats["delivery_polls"] += polls
				switch {
				case ms <= 250:
					w.res.Inc("delivery_le_250ms")
				case ms <= 1000:
					w.res.Inc("delivery_le_1s")
				case ms <= 5000:
					w.res.Inc("delivery_le_5s")
				default:
					w.res.Inc("delivery_gt_5s")
				}
				return w.checkPlacement(ctx, st, insp, op, fail)
			case perr != nil && time.Since(inspectFailingSince) > 5*time.Second:
				// the counters are unavailable: the answer alone decides (recorded)
				w.res.Inc("delivery_accepted_without_counters")
				return true
			}
		} else if perr == nil && n == 0 {
			if wrongSince.IsZero() {
				wrongSince = time.Now()
			}
		} else {
			wrongSince = time.Time{}
		}
		final := !wrongSince.IsZero() && time.Since(wrongSince) > deliverStableFail
		if final || time.Since(start) > deliverDeadline {
			waited := time.Since(start).Round(time.Millisecond)
			switch {
			case sig == "":
				fail("cluster-did-not-deliver", "the cluster answers correctly but the liaison still reports pending data %s after the %s step (%v, inspect error %v)", waited, op, desc, perr)
			case perr != nil || n != 0:
				fail("cluster-did-not-deliver", "%s after the %s step the liaison queue is not delivered (%v, inspect error %v); last covering answer: %s: %s", waited, op, desc, perr, sig, msg)
			default:
				fail("cluster-"+sig+"-after-"+op, "%s (the cluster's answer stayed wrong for %s with an empty liaison queue: %s; the stand-alone server answered correctly)", msg, waited, desc)
			}
			return false
		}
		time.Sleep(pollInterval)
	}
}

// buildQuery translates a spec query into a request (two-day time axis).
func (w *clusterWorld) buildQuery(q map[string]any) *measurev1.QueryRequest {
	req := w.coverReq2()
	req.TimeRange = &modelv1.TimeRange{Begin: timestamppb.New(w.ts2(vlib.Int(q, "lo"))), End: timestamppb.New(w.ts2(vlib.Int(q, "hi")).Add(time.Millisecond))}
	req.Criteria = criteriaOf(vlib.Map(q, "crit"))
	series := vlib.Ints(vlib.List(q, "series"))
	if len(series) >= 1 {
		ent := &modelv1.Criteria{Exp: &modelv1.Criteria_Condition{Condition: &modelv1.Condition{Name: "svc", Op: modelv1.Condition_BINARY_OP_EQ, Value: tagStr(w.seriesName(series[0]))}}}
		if len(series) > 1 {
			var names []string
			for _, sr := range series {
				names = append(names, w.seriesName(sr))
			}
			ent = &modelv1.Criteria{Exp: &modelv1.Criteria_Condition{Condition: &modelv1.Condition{Name: "svc", Op: modelv1.Condition_BINARY_OP_IN,
				Value: &modelv1.TagValue{Value: &modelv1.TagValue_StrArray{StrArray: &modelv1.StrArray{Value: names}}}}}}
		}
		if req.Criteria == nil {
			req.Criteria = ent
		} else {
			req.Criteria = &modelv1.Criteria{Exp: &modelv1.Criteria_Le{Le: &modelv1.LogicalExpression{Op: modelv1.LogicalExpression_LOGICAL_OP_AND, Left: ent, Right: req.Criteria}}}
		}
	}
	if vlib.Str(q, "order") == "time" {
		srt := modelv1.Sort_SORT_ASC
		if !vlib.Bool(q, "asc") {
			srt = modelv1.Sort_SORT_DESC
		}
		req.OrderBy = &modelv1.QueryOrder{Sort: srt}
		req.Offset = uint32(vlib.Int(q, "offset"))
		if l := vlib.Int(q, "limit"); l > 0 {
			req.Limit = uint32(l)
		}
	}
	return req
}

// queryOnce runs one spec query on one system and compares the answer with the spec's; "" = equal.
func (w *clusterWorld) queryOnce(ctx context.Context, conn *grpc.ClientConn, st vlib.State, ev map[string]any) (sig, msg string) {
	q := vlib.Map(ev, "q")
	desc := vlib.Canon(q)
	resp, err := w.queryOn(ctx, conn, w.buildQuery(q))
	w.res.Inc("criteria_queries")
	c1 := vlib.Map(vlib.Map(q, "crit"), "c1")
	if err != nil {
		return "query-rejected:" + vlib.Str(c1, "op"), fmt.Sprintf("query %s failed: %v", desc, err)
	}
	dps, bad := w.normalise(resp.DataPoints)
	if bad != "" {
		return "timestamp-never-written-in-query", bad + "; query " + desc
	}
	if vlib.Str(q, "order") == "time" {
		w.checkWindow(dps, q, ev, st, desc, func(s, format string, a ...any) { sig, msg = s, fmt.Sprintf(format, a...) })
		return sig, msg
	}
	if s, m := w.matchGroups(dps, vlib.List(ev, "groups"), vlib.List(ev, "ambiguous"), ackedMap(st)); s != "" {
		return s + "-in-query:" + vlib.Str(c1, "op") + ":" + vlib.Str(c1, "tag") + ":" + w.cfg.Index, m + "; query " + desc
	}
	return "", ""
}

// checkBoth runs one spec query on the stand-alone server and on the cluster.
func (w *clusterWorld) checkBoth(ctx context.Context, st vlib.State, ev map[string]any, fail func(string, string, ...any)) bool {
	if sig, msg := w.queryOnce(ctx, w.srv.conn, st, ev); sig != "" {
		fail("standalone-"+sig, "%s", msg)
		return false
	}
	sig, msg := w.queryOnce(ctx, w.env.conn, st, ev)
	if sig == "" {
		return true
	}
	// not delivery lag?  the queue was delivered before this step; re-query for a while anyway
	start := time.Now()
	for time.Since(start) < requeryBudget {
		time.Sleep(250 * time.Millisecond)
		s2, m2 := w.queryOnce(ctx, w.env.conn, st, ev)
		if s2 == "" {
			w.res.Inc("cluster_query_healed_on_requery")
			return true
		}
		sig, msg = s2, m2
	}
	_, desc, _, _ := w.pending(ctx)
	fail("cluster-"+sig, "%s (re-queried for %s, %s; the stand-alone server answered this query correctly)", msg, requeryBudget, desc)
	return false
}

func (w *clusterWorld) replay(ctx context.Context, b vlib.Behaviour) {
	t0 := time.Now()
	defer func() {
		w.res.Stats["behaviour_ms"] += int(time.Since(t0) / time.Millisecond)
	}()
	if len(b.States) > 1 {
		w.vmap = int(crc32.ChecksumIEEE([]byte(vlib.Canon(b.States[1]["last"]))))%1000 + int(vlib.Seed())
	}
	var deferred [][]map[string]any
	for i, st := range b.States {
		if i == 0 {
			continue
		}
		ev := vlib.Map(st, "last")
		op := vlib.Str(ev, "op")
		w.res.Steps++
		w.res.Inc("op_" + op)
		fail := func(sig, format string, a ...any) { w.res.Violate(b.ID, i, sig, format, a...) }
		switch op {
		case "write":
			rows := sortedRows(vlib.List(ev, "rows"))
			days := map[bool]bool{}
			for _, r := range rows {
				days[vlib.Int(r, "t") <= clusterSplitSlot] = true
			}
			if len(days) == 2 {
				w.res.Inc("batches_spanning_two_segments")
			}
			// a run of consecutive write steps reaches the cluster back to back (after the last of them), so that they pile
			// up in the liaison's write queue within one flush window; the stand-alone server gets every batch at its step
			nextIsWrite := i+1 < len(b.States) && vlib.Str(vlib.Map(b.States[i+1], "last"), "op") == "write"
			deferred = append(deferred, rows)
			toCluster := deferred
			if nextIsWrite {
				toCluster = nil
			} else {
				deferred = nil
			}
			writeSide := func(conn *grpc.ClientConn, name string, batch []map[string]any) bool {
				if err := w.writeTo(ctx, conn, batch, name == "cluster"); err != nil {
					if strings.HasPrefix(err.Error(), "VIOLATION") {
						fail(name+"-write-not-acknowledged", "%v", err)
					} else {
						w.res.Inconclusive = append(w.res.Inconclusive, name+" write: "+err.Error())
					}
					return false
				}
				return true
			}
			if !writeSide(w.srv.conn, "standalone", rows) {
				return
			}
			for _, batch := range toCluster {
				if !writeSide(w.env.conn, "cluster", batch) {
					return
				}
			}
			if len(toCluster) > 1 {
				w.res.Stats["batches_sent_back_to_back"] += len(toCluster)
			}
		case "flush", "merge":
			// the maintenance loops of both systems run on their own: the step only re-checks the answers
		case "query":
			if !w.checkBoth(ctx, st, ev, fail) {
				return
			}
			continue
		case "queryall":
			for _, r := range vlib.List(ev, "res") {
				if !w.checkBoth(ctx, st, vlib.Rec(r), fail) {
					return
				}
			}
			continue
		}
		if sig, msg := w.coverOn(ctx, w.srv.conn, st); sig != "" {
			fail("standalone-"+sig+"-after-"+op, "%s", msg)
			return
		}
		if op == "write" && i+1 < len(b.States) && vlib.Str(vlib.Map(b.States[i+1], "last"), "op") == "write" {
			// consecutive batches pile up in the liaison's write queue: one flush round then sees several memory
			// parts per time segment; delivery is awaited after the last batch of the run of writes
			w.res.Inc("writes_piled_up")
			continue
		}
		if !w.awaitDelivered(ctx, st, op, fail) {
			return
		}
	}
}
