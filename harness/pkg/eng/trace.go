package main

// Trace binding of spec/Engine.tla (engine "trace" of the eng harness).
//
// INSTANTIATION.  Versioned = FALSE (nothing is deduplicated: every acknowledged span is its own result row),
// TagsBySeries = FALSE (the queried tags belong to the span).  One fresh group + trace schema per behaviour, one gRPC
// write stream per spec batch, flush / merge run by the REAL flusher / merger code of banyand/trace (core parts AND the
// parts of every secondary index, one publication) through the verif hooks, both covering queries + the part layout
// compared with the spec state after every step, criteria / ordered-window queries at query steps.  No sampler is
// configured: merges are lossless.
//
//	spec row [id, s, t, v, batch]    span
//	  id                             tag rid (INT) = id, the identity used to pair a returned span with its spec row;
//	                                 span_id (the schema's span-id tag) = "sp<id>" + an adversarial suffix
//	  s  (series)                    tag svc (STRING) = seriesName(s); the entity prefix of the index rules ("tree")
//	  t  (time)                      tag ts (TIMESTAMP, the schema's timestamp tag) = base + t minutes
//	  RowTags[id].a / .b / .arr      tags a (INT) / b (STRING "b%02d") / arr (INT_ARRAY): what criteria talk about
//	  payload (opaque to the spec)   tags ps (STRING) pb (DATA_BINARY) pa (STRING_ARRAY) pia (INT_ARRAY) pts (TIMESTAMP
//	                                 with nanoseconds) and the binary span body, all from seeded adversarial pools
//	  trace_id                       a function of the row chosen by the family (cfg.index = "<rules>/<traceOf>"):
//	       traceOf = series          trace = series: traces of several spans spread over batches and parts
//	       traceOf = time            trace = time slot: a trace crosses services (its spans differ in the entity tag)
//	       traceOf = row             one span per trace: the spec's ordered windows apply literally
//	  rules = tree                   index rules (TYPE_TREE -> sidx) idx-ts = [svc, ts], idx-a = [svc, a]: svc is the sidx series
//	  rules = flat                   idx-ts = [ts], idx-a = [a]: svc is an ordinary tag stored in the sidx elements
//	  rules = none                   no index rule: only trace-id queries exist
//
// RESULT SHAPE.  The trace API returns TRACES: a trace is selected when at least one of its spans satisfies the
// criteria (and lies in the key range), and it is returned WHOLE (all its spans, whatever they look like); offset /
// limit count traces.  The reference answer is therefore derived from the spec's answer without re-evaluating
// anything: with S = the rows of the spec's `groups` (rows in range that satisfy the criteria),
//
//	expected traces  E = { traceOf(r) : r in S },  each with ALL acknowledged spans of that trace (spec `acked`)
//	order key of T   = min (ASC) / max (DESC) of key(r) over r in S with traceOf(r) = T   (the first element the ordered
//	                   index meets), key = t (idx-ts) or a (idx-a); expected window = Window(sorted keys, offset, limit)
//
// With traceOf = row this is literally the spec's answer (and the derived window is cross-checked against TLC's wkeys).
//
// COVERING QUERIES (after every step; each must return every acknowledged span exactly as written, nothing else):
//
//	cover-by-id     trace_id IN (every trace of the view + ids that were never written)        trace-id path, bloom filters
//	cover-by-idx-*  no criteria, ORDER BY idx-ts and by idx-a over the whole time range         sidx path (rules != none)
//
// QUERY KINDS of the spec and how they are bound (each query of a step is asked in every applicable form):
//
//	form id   (rules any)   criteria AND trace_id IN C, C = traces whose spans all lie in [lo, hi] (+ absent ids); the
//	                        series restriction is C itself (traceOf = series) or a condition on svc; expected E ∩ C.
//	                        Skipped with a counter: C empty; OR criteria (the engine refuses OR next to a trace-id
//	                        condition: "global index doesn't support OR").
//	form ts   (rules != none) TimeRange [lo, hi], criteria, ORDER BY idx-ts ASC/DESC, offset, limit: the spec's
//	                        order = "time" windows, and every unordered criteria query as ASC without limit.
//	form a    (rules != none) ORDER BY idx-a (the stream harness does the same beyond the spec's time order).  A time
//	                        restriction cannot be expressed here (the time range only selects segments): asked only
//	                        when [lo, hi] covers every acknowledged row, else skipped with a counter.  Conditions on a
//	                        are then conditions on the KEY of the ordering index: ranges and equalities narrow the key
//	                        range; NE / IN / NOT_IN and ORs that mention a are decided on the spans of the candidate
//	                        traces - for those the selected SET is compared, the order is not (counter): a trace of
//	                        several spans keeps the key of its first index element, which need not satisfy them.
//	single trace            at queryall steps every trace of the view is fetched by trace_id = T.
//
// Not expressible and therefore not asked: unordered queries without a trace id (the engine requires one of the two),
// ordering by time without an index rule, a span-level time restriction next to trace ids or to ORDER BY idx-a,
// windows of a trace-id query (it has no order), aggregates.  Counters name every skip.
//
// The default query path of the engine is its vectorized pipeline (QuerySync on the secondary index + direct block
// assembly); families with the server flag --trace-vectorized-enabled=false run the row path (StreamingQuery + block
// scan stage).  Several shards (cfg.shards): a trace lives in the shard its id hashes to; flush steps flush every
// table, merge steps merge all file parts of every table, the layout is not compared, every answer is.
//
// Binding self-test: VERIF_TRACE_SELFTEST = corrupt-tag | corrupt-body | drop-span makes the expectation of row 1 / of
// every trace wrong; checks/trace_try.py requires each to be reported.

import (
	"context"
	"flag"
	"fmt"
	"io"
	"math/rand"
	"os"
	"sort"
	"strings"
	"time"

	"google.golang.org/protobuf/types/known/timestamppb"

	commonv1 "github.com/apache/skywalking-banyandb/api/proto/banyandb/common/v1"
	databasev1 "github.com/apache/skywalking-banyandb/api/proto/banyandb/database/v1"
	modelv1 "github.com/apache/skywalking-banyandb/api/proto/banyandb/model/v1"
	tracev1 "github.com/apache/skywalking-banyandb/api/proto/banyandb/trace/v1"
	"github.com/apache/skywalking-banyandb/banyand/trace"
	"github.com/apache/skywalking-banyandb/banyand/verifharness/vlib"
)

func init() {
	engines["trace"] = func(srv *server, cfg config, group string, res *vlib.Result) world {
		return newTraceWorld(srv, cfg, group, res)
	}
	engineInit["trace"] = func() []string {
		trace.VerifSetManual(true)
		return []string{"--trace-flush-timeout=1h"}
	}
}

const traceName = "tr"

var traceTagOrder = []string{"trace_id", "span_id", "ts", "svc", "rid", "a", "b", "arr", "ps", "pb", "pa", "pia", "pts"}

var traceTagTypes = map[string]databasev1.TagType{
	"trace_id": databasev1.TagType_TAG_TYPE_STRING, "span_id": databasev1.TagType_TAG_TYPE_STRING, "ts": databasev1.TagType_TAG_TYPE_TIMESTAMP,
	"svc": databasev1.TagType_TAG_TYPE_STRING, "rid": databasev1.TagType_TAG_TYPE_INT, "a": databasev1.TagType_TAG_TYPE_INT,
	"b": databasev1.TagType_TAG_TYPE_STRING, "arr": databasev1.TagType_TAG_TYPE_INT_ARRAY, "ps": databasev1.TagType_TAG_TYPE_STRING,
	"pb": databasev1.TagType_TAG_TYPE_DATA_BINARY, "pa": databasev1.TagType_TAG_TYPE_STRING_ARRAY, "pia": databasev1.TagType_TAG_TYPE_INT_ARRAY,
	"pts": databasev1.TagType_TAG_TYPE_TIMESTAMP,
}

// ---- concretisation: id -> adversarial concrete values (seeded) -----------------------------------------

var (
	tSpanIDPool = []string{"", "-x", "|", "\\", "-ü☃", "-\"q\"", "-" + strings.Repeat("long", 40), " ", "-a|b\\c"}
	tBodyPool   = [][]byte{{}, {0}, {0, 0}, {0xff, 0x00, 0x7c, 0x5c}, []byte("|"), []byte("span-body"), []byte(strings.Repeat("\x01\x02\x03", 400))}
	tTimePool   = []int64{0, 1, 999999999, 1000000000, 1700000000123456789, 253402300799999999, 4102444800000000001} // unix nanoseconds
)

type traceVals struct {
	ps     string
	pb     []byte
	pa     []string
	pia    []int64
	pts    int64
	body   []byte
	suffix string
	null   uint8 // bit 0: ps written as explicit null, 1: pb, 2: pa, 3: pia, 4: pts
}

func (m *traceWorld) vals(id int) traceVals {
	r := rand.New(rand.NewSource(m.seed*1000003 + int64(id)*7919 + 29))
	pick := func(n int) int { return r.Intn(n) }
	v := traceVals{ps: sStrPool[pick(len(sStrPool))], pb: sBinPool[pick(len(sBinPool))], pa: sSaPool[pick(len(sSaPool))], pia: sIaPool[pick(len(sIaPool))],
		pts: tTimePool[pick(len(tTimePool))], body: tBodyPool[pick(len(tBodyPool))], suffix: tSpanIDPool[pick(len(tSpanIDPool))]}
	if pick(4) == 0 {
		v.pia = []int64{r.Int63() - r.Int63(), sIntPool[pick(len(sIntPool))]}
	}
	if pick(3) == 0 {
		b := make([]byte, 1+pick(48))
		r.Read(b)
		v.body = b
	}
	if pick(4) == 0 {
		b := make([]byte, 1+pick(24))
		r.Read(b)
		v.pb = b
	}
	if pick(4) == 0 {
		v.pts = r.Int63n(4102444800000000000)
	}
	for bit := 0; bit < 5; bit++ {
		if pick(7) == 0 {
			v.null |= 1 << bit
		}
	}
	if id%4 == 2 {
		// whatever the seed: a string array whose element carries the escape byte in front of the delimiter byte (the
		// array codec removes escapes in place when it decodes), never written as null
		v.pa = []string{"\x00", "a\\|b"}
		v.null &^= 1 << 2
	}
	if m.cfg.Big && pick(4) == 0 {
		v.body = []byte(strings.Repeat(fmt.Sprintf("%08d", id), 40000)) // 320 KB span bodies: several of them cross the block limits
	}
	return v
}

// ---- world ---------------------------------------------------------------------------------------------

type traceWorld struct {
	base     time.Time
	srv      *server
	res      *vlib.Result
	pids     map[int]uint64 // spec part id -> real part id (several spec parts may share one after a flusher merge)
	group    string
	root     string
	rules    string // none | tree | flat
	mode     string // series | time | row
	selftest string
	cfg      config
	seed     int64
	version  uint64
	curB     int
	curStep  int
	debug    bool
}

func newTraceWorld(srv *server, cfg config, group string, res *vlib.Result) *traceWorld {
	now := time.Now().UTC()
	base := time.Date(now.Year(), now.Month(), now.Day(), 1, 0, 0, 0, time.UTC)
	rules, mode := "tree", "series" // cfg.Index = "<rules>/<traceOf>", e.g. "flat/row"; "none" = no index rule
	parts := strings.SplitN(cfg.Index, "/", 2)
	if parts[0] != "" {
		rules = parts[0]
	}
	if len(parts) == 2 && parts[1] != "" {
		mode = parts[1]
	}
	return &traceWorld{srv: srv, cfg: cfg, group: group, res: res, seed: vlib.Seed(), base: base, pids: map[int]uint64{}, rules: rules, mode: mode,
		debug: os.Getenv("VERIF_TRACE_DEBUG") != "", selftest: os.Getenv("VERIF_TRACE_SELFTEST")}
}

func (m *traceWorld) ts(t int) time.Time { return m.base.Add(time.Duration(t) * time.Minute) }

func (m *traceWorld) seriesName(s int) string {
	names := []string{"", "svc-1", "svc|2\\", "svc-10", ""}
	if s < len(names) && names[s] != "" {
		return names[s]
	}
	return fmt.Sprintf("svc-%d", s)
}

// traceKey is the abstract trace of a row: an integer whose meaning depends on the mode.
func (m *traceWorld) traceKey(row map[string]any) int {
	switch m.mode {
	case "time":
		return vlib.Int(row, "t")
	case "row":
		return vlib.Int(row, "id")
	}
	return vlib.Int(row, "s")
}

func (m *traceWorld) traceID(k int) string {
	switch m.mode {
	case "time":
		return fmt.Sprintf("slot-%d", k)
	case "row":
		return fmt.Sprintf("r%03d%s", k, []string{"", "|", "\\x", "-ü"}[k%4])
	}
	names := []string{"", "trace-1", "tr|2\\ü☃", "trace-10"}
	if k < len(names) && names[k] != "" {
		return names[k]
	}
	return fmt.Sprintf("trace-%d", k)
}

func (m *traceWorld) spanID(id int) string { return fmt.Sprintf("sp%d%s", id, m.vals(id).suffix) }

var traceAbsentIDs = []string{"absent-1", "trace-1x", "", "slot-0", "r000"}

func (m *traceWorld) rulesDef() map[string][]string {
	switch m.rules {
	case "tree":
		return map[string][]string{"idx-ts": {"svc", "ts"}, "idx-a": {"svc", "a"}}
	case "flat":
		return map[string][]string{"idx-ts": {"ts"}, "idx-a": {"a"}}
	}
	return nil
}

func (m *traceWorld) setup(ctx context.Context) error {
	gc := databasev1.NewGroupRegistryServiceClient(m.srv.conn)
	_, err := gc.Create(ctx, &databasev1.GroupRegistryServiceCreateRequest{Group: &commonv1.Group{
		Metadata: &commonv1.Metadata{Name: m.group},
		Catalog:  commonv1.Catalog_CATALOG_TRACE,
		ResourceOpts: &commonv1.ResourceOpts{
			ShardNum:        uint32(max(1, m.cfg.Shards)),
			SegmentInterval: &commonv1.IntervalRule{Unit: commonv1.IntervalRule_UNIT_DAY, Num: 1},
			Ttl:             &commonv1.IntervalRule{Unit: commonv1.IntervalRule_UNIT_DAY, Num: 30},
		},
	}})
	if err != nil {
		return fmt.Errorf("create group: %w", err)
	}
	var specs []*databasev1.TraceTagSpec
	for _, n := range traceTagOrder {
		specs = append(specs, &databasev1.TraceTagSpec{Name: n, Type: traceTagTypes[n]})
	}
	tc := databasev1.NewTraceRegistryServiceClient(m.srv.conn)
	if _, err = tc.Create(ctx, &databasev1.TraceRegistryServiceCreateRequest{Trace: &databasev1.Trace{
		Metadata: &commonv1.Metadata{Name: traceName, Group: m.group}, Tags: specs,
		TraceIdTagName: "trace_id", SpanIdTagName: "span_id", TimestampTagName: "ts",
	}}); err != nil {
		return fmt.Errorf("create trace: %w", err)
	}
	probe := m.baseReq()
	probe.Criteria = traceCond("trace_id", modelv1.Condition_BINARY_OP_EQ, tagStr("absent-1"))
	if defs := m.rulesDef(); defs != nil {
		ic := databasev1.NewIndexRuleRegistryServiceClient(m.srv.conn)
		var names []string
		for _, n := range []string{"idx-ts", "idx-a"} {
			names = append(names, n)
			if _, err = ic.Create(ctx, &databasev1.IndexRuleRegistryServiceCreateRequest{IndexRule: &databasev1.IndexRule{
				Metadata: &commonv1.Metadata{Name: n, Group: m.group}, Tags: defs[n], Type: databasev1.IndexRule_TYPE_TREE,
			}}); err != nil {
				return fmt.Errorf("create index rule: %w", err)
			}
		}
		bc := databasev1.NewIndexRuleBindingRegistryServiceClient(m.srv.conn)
		if _, err = bc.Create(ctx, &databasev1.IndexRuleBindingRegistryServiceCreateRequest{IndexRuleBinding: &databasev1.IndexRuleBinding{
			Metadata: &commonv1.Metadata{Name: "bind", Group: m.group}, Rules: names,
			Subject: &databasev1.Subject{Catalog: commonv1.Catalog_CATALOG_TRACE, Name: traceName},
			BeginAt: timestamppb.New(m.base.Add(-24 * time.Hour)), ExpireAt: timestamppb.New(m.base.Add(24 * 365 * time.Hour)),
		}}); err != nil {
			return fmt.Errorf("create binding: %w", err)
		}
		// ordering by a rule is refused ("index rule ... not found") until the trace object - the one the write path
		// takes its index rules from - knows the rule: both rules are probed
		probe.Criteria = nil
		probe.OrderBy = &modelv1.QueryOrder{IndexRuleName: "idx-a", Sort: modelv1.Sort_SORT_ASC}
	}
	deadline := time.Now().Add(20 * time.Second)
	settled := 0
	for {
		_, qerr := m.query(ctx, probe)
		if qerr == nil && probe.OrderBy != nil {
			p2 := m.baseReq()
			p2.OrderBy = &modelv1.QueryOrder{IndexRuleName: "idx-ts", Sort: modelv1.Sort_SORT_DESC}
			_, qerr = m.query(ctx, p2)
		}
		if qerr == nil && m.rulesDef() != nil && !m.rulesServed() {
			qerr = fmt.Errorf("the trace object of the engine does not list both index rules yet")
		}
		if qerr == nil {
			settled++
			if settled >= 3 {
				return nil
			}
			time.Sleep(10 * time.Millisecond)
			continue
		}
		settled = 0
		if time.Now().After(deadline) {
			return fmt.Errorf("schema not served after 20s: %w", qerr)
		}
		time.Sleep(20 * time.Millisecond)
	}
}

// rulesServed: the registry lists the binding and both rules for the subject (what the engine loads).
func (m *traceWorld) rulesServed() bool {
	ic := databasev1.NewIndexRuleRegistryServiceClient(m.srv.conn)
	cctx, cancel := context.WithTimeout(context.Background(), 5*time.Second)
	defer cancel()
	r, err := ic.List(cctx, &databasev1.IndexRuleRegistryServiceListRequest{Group: m.group})
	return err == nil && len(r.GetIndexRule()) == 2
}

func (m *traceWorld) teardown(ctx context.Context) {
	gc := databasev1.NewGroupRegistryServiceClient(m.srv.conn)
	cctx, cancel := context.WithTimeout(ctx, 10*time.Second)
	defer cancel()
	_, _ = gc.Delete(cctx, &databasev1.GroupRegistryServiceDeleteRequest{Group: m.group})
}

func (m *traceWorld) query(ctx context.Context, req *tracev1.QueryRequest) (*tracev1.QueryResponse, error) {
	cctx, cancel := context.WithTimeout(ctx, 30*time.Second)
	defer cancel()
	return tracev1.NewTraceServiceClient(m.srv.conn).Query(cctx, req)
}

func (m *traceWorld) baseReq() *tracev1.QueryRequest {
	return &tracev1.QueryRequest{
		Groups: []string{m.group}, Name: traceName,
		TimeRange:     &modelv1.TimeRange{Begin: timestamppb.New(m.base.Add(-time.Hour)), End: timestamppb.New(m.base.Add(12 * time.Hour))},
		TagProjection: append([]string{}, traceTagOrder...),
		Limit:         1000000,
	}
}

func traceCond(name string, op modelv1.Condition_BinaryOp, v *modelv1.TagValue) *modelv1.Criteria {
	return &modelv1.Criteria{Exp: &modelv1.Criteria_Condition{Condition: &modelv1.Condition{Name: name, Op: op, Value: v}}}
}

func traceAnd(l, r *modelv1.Criteria) *modelv1.Criteria {
	if l == nil {
		return r
	}
	if r == nil {
		return l
	}
	return &modelv1.Criteria{Exp: &modelv1.Criteria_Le{Le: &modelv1.LogicalExpression{Op: modelv1.LogicalExpression_LOGICAL_OP_AND, Left: l, Right: r}}}
}

func tagStrs(ss []string) *modelv1.TagValue {
	return &modelv1.TagValue{Value: &modelv1.TagValue_StrArray{StrArray: &modelv1.StrArray{Value: ss}}}
}

func (m *traceWorld) rowTags(id int) (a int64, b string, arr []int64) {
	t := m.cfg.RowTags[fmt.Sprint(id)]
	a = int64(vlib.Int(t, "a"))
	b = fmt.Sprintf("b%02d", vlib.Int(t, "b"))
	for _, x := range vlib.Ints(vlib.List(t, "arr")) {
		arr = append(arr, int64(x))
	}
	sort.Slice(arr, func(i, j int) bool { return arr[i] < arr[j] })
	return
}

var traceNull = &modelv1.TagValue{Value: &modelv1.TagValue_Null{}}

func tagTime(ns int64) *modelv1.TagValue {
	return &modelv1.TagValue{Value: &modelv1.TagValue_Timestamp{Timestamp: &timestamppb.Timestamp{Seconds: ns / 1e9, Nanos: int32(ns % 1e9)}}}
}

// spanTags returns the written value of every tag of a row, by tag name.
func (m *traceWorld) spanTags(row map[string]any) map[string]*modelv1.TagValue {
	id := vlib.Int(row, "id")
	v := m.vals(id)
	a, b, arr := m.rowTags(id)
	out := map[string]*modelv1.TagValue{
		"trace_id": tagStr(m.traceID(m.traceKey(row))), "span_id": tagStr(m.spanID(id)),
		"ts":  {Value: &modelv1.TagValue_Timestamp{Timestamp: timestamppb.New(m.ts(vlib.Int(row, "t")))}},
		"svc": tagStr(m.seriesName(vlib.Int(row, "s"))), "rid": tagInt(int64(id)), "a": tagInt(a), "b": tagStr(b),
		"arr": {Value: &modelv1.TagValue_IntArray{IntArray: &modelv1.IntArray{Value: arr}}},
		"ps":  tagStr(v.ps), "pb": {Value: &modelv1.TagValue_BinaryData{BinaryData: v.pb}},
		"pa": tagStrs(v.pa), "pia": {Value: &modelv1.TagValue_IntArray{IntArray: &modelv1.IntArray{Value: v.pia}}},
		"pts": tagTime(v.pts),
	}
	for bit, n := range []string{"ps", "pb", "pa", "pia", "pts"} {
		if v.null&(1<<bit) != 0 {
			out[n] = traceNull
		}
	}
	return out
}

// write sends one batch = one gRPC write stream and waits for every acknowledgement.  Every other batch (seeded) names
// its tags through a TagSpec in a permuted order instead of relying on the schema order.
func (m *traceWorld) write(ctx context.Context, rows []map[string]any) error {
	cctx, cancel := context.WithTimeout(ctx, 30*time.Second)
	defer cancel()
	st, err := tracev1.NewTraceServiceClient(m.srv.conn).Write(cctx)
	if err != nil {
		return err
	}
	md := &commonv1.Metadata{Name: traceName, Group: m.group}
	order := traceTagOrder
	var spec *tracev1.TagSpec
	if len(rows) > 0 {
		r := rand.New(rand.NewSource(m.seed*31 + int64(vlib.Int(rows[0], "batch"))*977 + int64(m.curB)))
		if r.Intn(2) == 0 {
			order = append([]string{}, traceTagOrder...)
			r.Shuffle(len(order), func(i, j int) { order[i], order[j] = order[j], order[i] })
			spec = &tracev1.TagSpec{TagNames: order}
			m.res.Inc("batches_with_permuted_tag_spec")
		}
	}
	for i, r := range rows {
		m.version++
		tv := m.spanTags(r)
		req := &tracev1.WriteRequest{Span: m.vals(vlib.Int(r, "id")).body, Version: m.version}
		for _, n := range order {
			req.Tags = append(req.Tags, tv[n])
		}
		if i == 0 {
			req.Metadata = md
			req.TagSpec = spec
		}
		if err = st.Send(req); err != nil {
			return err
		}
	}
	if err = st.CloseSend(); err != nil {
		return err
	}
	acks := 0
	for {
		resp, rerr := st.Recv()
		if rerr == io.EOF {
			break
		}
		if rerr != nil {
			return rerr
		}
		if resp.Status != modelv1.Status_STATUS_SUCCEED.String() {
			return fmt.Errorf("VIOLATION write not acknowledged: status %s", resp.Status)
		}
		acks++
	}
	if acks != len(rows) {
		return fmt.Errorf("VIOLATION %d acknowledgements for %d spans", acks, len(rows))
	}
	return nil
}

// guard: see streamWorld.guard.
func (m *traceWorld) guard(sig, format string, a ...any) {
	f := flag.Lookup("out")
	if f == nil || f.Value.String() == "" {
		return
	}
	cp := *m.res
	cp.Violations = append(append([]vlib.Violation{}, m.res.Violations...),
		vlib.Violation{Behaviour: m.curB, Step: m.curStep, Signature: sig, Detail: fmt.Sprintf(format, a...)})
	cp.Write(f.Value.String())
}

func (m *traceWorld) roots() []string { return trace.VerifTableRoots("/" + m.group + "/") }

func (m *traceWorld) realParts() map[uint64]trace.VerifLoopPart {
	out := map[uint64]trace.VerifLoopPart{}
	rs := []string{m.root}
	if m.root == "" {
		rs = m.roots()
	}
	for _, r := range rs {
		for _, p := range trace.VerifLoopParts(r).Parts {
			out[p.ID] = p
		}
	}
	return out
}

var traceSigCount = map[string]int{}

func (m *traceWorld) replay(ctx context.Context, b vlib.Behaviour) {
	for i, st := range b.States {
		if i == 0 {
			continue
		}
		ev := vlib.Map(st, "last")
		op := vlib.Str(ev, "op")
		m.curB, m.curStep = b.ID, i
		m.guard("process-died-during-"+op, "the server process died while step %d (%s) or its covering query was executed", i, op)
		m.res.Steps++
		m.res.Inc("op_" + op)
		fail := func(sig, format string, a ...any) { m.res.Violate(b.ID, i, sig, format, a...) }
		coin := rand.New(rand.NewSource(m.seed*131 + int64(b.ID)*7 + int64(i)*1009))
		switch op {
		case "write":
			before := m.realParts()
			rows := sortedRows(vlib.List(ev, "rows"))
			if err := m.write(ctx, rows); err != nil {
				if strings.HasPrefix(err.Error(), "VIOLATION") {
					fail("write-not-acknowledged", "%v", err)
				} else {
					m.res.Inconclusive = append(m.res.Inconclusive, "write: "+err.Error())
				}
				return
			}
			m.res.Stats["spans_written"] += len(rows)
			if m.cfg.Shards > 1 {
				break // several tables: the layout is not mapped (see config.Shards)
			}
			if m.root == "" {
				roots := m.roots()
				if len(roots) != 1 {
					m.res.Inconclusive = append(m.res.Inconclusive, fmt.Sprintf("expected one table for group %s, found %v", m.group, roots))
					return
				}
				m.root = roots[0]
			}
			var fresh []uint64
			for id := range m.realParts() {
				if _, ok := before[id]; !ok {
					fresh = append(fresh, id)
				}
			}
			if len(fresh) != 1 {
				fail("write-did-not-add-one-part", "acknowledged batch produced %d new parts (%v)", len(fresh), fresh)
				return
			}
			m.pids[vlib.Int(ev, "part")] = fresh[0]
		case "flush":
			plain := coin.Intn(3) != 0
			if m.cfg.Shards > 1 {
				for _, r := range m.roots() {
					if _, err := trace.VerifLoopFlush(r, plain); err != nil {
						fail("flush-failed", "flushing %s: %v", r, err)
						return
					}
				}
				m.res.Inc("multi_shard_flushes")
				break
			}
			before := m.realParts()
			merged, err := trace.VerifLoopFlush(m.root, plain)
			if err != nil {
				fail("flush-failed", "flush (plain=%v): %v", plain, err)
				return
			}
			if !merged {
				m.res.Inc("flushes_one_by_one")
				break
			}
			// the flusher merged the memory parts into ONE file part: the spec keeps them apart, the mapping joins them
			m.res.Inc("flushes_merging_mem_parts")
			var fresh []uint64
			for id := range m.realParts() {
				if _, ok := before[id]; !ok {
					fresh = append(fresh, id)
				}
			}
			if len(fresh) != 1 {
				fail("flush-merge-did-not-add-one-part", "the flusher's merge of the memory parts produced %d new parts (%v)", len(fresh), fresh)
				return
			}
			for _, p := range vlib.Ints(vlib.List(ev, "flushed")) {
				m.pids[p] = fresh[0]
			}
		case "merge":
			if m.cfg.Shards > 1 {
				for _, r := range m.roots() {
					var files []uint64
					for _, p := range trace.VerifLoopParts(r).Parts {
						if !p.Mem {
							files = append(files, p.ID)
						}
					}
					if len(files) < 2 {
						continue
					}
					if _, err := trace.VerifLoopMerge(r, files); err != nil {
						fail("merge-failed", "merging parts %v of %s: %v", files, r, err)
						return
					}
					m.res.Inc("multi_shard_merges")
				}
				break
			}
			seen := map[uint64]bool{}
			var ids []uint64
			for _, p := range vlib.Ints(vlib.List(ev, "inputs")) {
				if id := m.pids[p]; !seen[id] {
					seen[id] = true
					ids = append(ids, id)
				}
			}
			if len(ids) < 2 {
				// all inputs already live in one real part (the flusher merged them): nothing to do for the real merger
				m.res.Inc("merge_steps_already_done_by_flusher")
				m.pids[vlib.Int(ev, "out")] = ids[0]
				break
			}
			m.res.Inc(fmt.Sprintf("merge_fan_in_%d", len(ids)))
			out, err := trace.VerifLoopMerge(m.root, ids)
			if err != nil {
				fail("merge-failed", "merging parts %v: %v", ids, err)
				return
			}
			m.pids[vlib.Int(ev, "out")] = out
			for sp, rp := range m.pids {
				if seen[rp] {
					m.pids[sp] = out
				}
			}
		case "query", "queryall":
			once := func(sig, format string, a ...any) {
				if m.debug {
					fmt.Printf("DEBUGV %s\n", sig)
				}
				if traceSigCount[sig] < 3 {
					traceSigCount[sig]++
					fail(sig, format, a...)
				} else {
					m.res.Inc("violations_not_listed")
				}
			}
			if op == "query" {
				m.checkQuery(ctx, st, ev, once)
				continue
			}
			m.checkSingleTraces(ctx, st, once)
			for _, r := range vlib.List(ev, "res") {
				m.checkQuery(ctx, st, vlib.Rec(r), once)
			}
			continue
		}
		if m.cfg.Shards <= 1 && !m.checkParts(st, op, fail) {
			return
		}
		if !m.checkCover(ctx, st, op, fail) {
			return
		}
	}
}

// checkParts compares the part layout (core parts: ids, memory/file, span counts, trace = block counts, time span;
// every secondary index: one part per core part, same id, same kind) with the spec state.
func (m *traceWorld) checkParts(st vlib.State, op string, fail func(string, string, ...any)) bool {
	lay := trace.VerifLoopParts(m.root)
	acked := ackedMap(st)
	type agg struct {
		traces map[int]bool
		rows   int
		lo, hi int64
		mem    bool
		specs  []int
	}
	want := map[uint64]*agg{}
	for _, pv := range vlib.List(st, "parts") {
		p := vlib.Rec(pv)
		rp, ok := m.pids[vlib.Int(p, "pid")]
		if !ok {
			fail("part-missing-after-"+op, "spec part %d has no real counterpart", vlib.Int(p, "pid"))
			return false
		}
		g := want[rp]
		if g == nil {
			g = &agg{traces: map[int]bool{}, lo: 1<<63 - 1, hi: -1 << 63, mem: vlib.Bool(p, "mem")}
			want[rp] = g
		}
		if g.mem != vlib.Bool(p, "mem") {
			m.res.Inconclusive = append(m.res.Inconclusive, "harness: a real part stands for memory and file parts of the spec")
			return false
		}
		g.specs = append(g.specs, vlib.Int(p, "pid"))
		for _, id := range vlib.Ints(vlib.List(p, "rows")) {
			g.rows++
			g.traces[m.traceKey(acked[id])] = true
			t := m.ts(vlib.Int(acked[id], "t")).UnixNano()
			g.lo, g.hi = min(g.lo, t), max(g.hi, t)
		}
	}
	if len(lay.Parts) != len(want) {
		fail("part-layout-differs-after-"+op, "real snapshot has %d parts, spec %d (after joining flusher-merged parts)", len(lay.Parts), len(want))
		return false
	}
	for _, rp := range lay.Parts {
		g, ok := want[rp.ID]
		if !ok {
			fail("part-missing-after-"+op, "real part %d is not a part of the spec", rp.ID)
			return false
		}
		if rp.Mem != g.mem {
			fail("part-kind-differs-after-"+op, "part %d: real mem=%v spec mem=%v", rp.ID, rp.Mem, g.mem)
			return false
		}
		if int(rp.Count) != g.rows {
			fail("part-count-differs-after-"+op, "part %d (spec parts %v) holds %d spans, spec %d", rp.ID, g.specs, rp.Count, g.rows)
			return false
		}
		if !m.cfg.Big && int(rp.Blocks) != len(g.traces) {
			fail("part-trace-count-differs-after-"+op, "part %d (spec parts %v) holds %d blocks, its spans belong to %d traces", rp.ID, g.specs, rp.Blocks, len(g.traces))
			return false
		}
		if g.rows > 0 && (rp.MinTS != g.lo || rp.MaxTS != g.hi) {
			fail("part-timespan-differs-after-"+op, "part %d spans [%d, %d], its spans span [%d, %d]", rp.ID, rp.MinTS, rp.MaxTS, g.lo, g.hi)
			return false
		}
	}
	for name := range m.rulesDef() {
		sp, ok := lay.Sidx[name]
		if !ok && len(lay.Parts) > 0 {
			fail("sidx-missing-after-"+op, "the table has no secondary index %s although spans were written", name)
			return false
		}
		files := 0
		for _, rp := range lay.Parts {
			if !rp.Mem {
				files++
			}
		}
		// PartPaths lists the FILE parts of the index under the given ids; Stats counts all its parts
		if len(sp) != files || int(lay.SidxCount[name]) != len(lay.Parts) {
			fail("sidx-layout-differs-after-"+op, "secondary index %s holds %d parts (%d file parts under the ids of the core parts), the core %d parts (%d file parts)",
				name, lay.SidxCount[name], len(sp), len(lay.Parts), files)
			return false
		}
		for _, p := range sp {
			if g := want[p.ID]; g == nil || g.mem {
				fail("sidx-part-kind-differs-after-"+op, "secondary index %s has a file part %d, the core part of that id is missing or a memory part", name, p.ID)
				return false
			}
		}
		m.res.Inc("sidx_layouts_compared")
	}
	return true
}

// ---- result comparison -----------------------------------------------------------------------------------

func traceFindTag(s *tracev1.Span, name string) *modelv1.TagValue {
	for _, t := range s.Tags {
		if t.Key == name {
			return t.Value
		}
	}
	return nil
}

// checkSpan compares one returned span with what was written for its row, bit-exactly.
func (m *traceWorld) checkSpan(s *tracev1.Span, row map[string]any) (string, string) {
	id := vlib.Int(row, "id")
	v := m.vals(id)
	want := m.spanTags(row)
	if m.selftest == "corrupt-tag" && id == 1 {
		want["ps"] = tagStr(v.ps + "~")
		v.null &^= 1
	}
	if m.selftest == "corrupt-body" && id == 1 {
		v.body = append(append([]byte{}, v.body...), 0x7e)
	}
	if string(s.Span) != string(v.body) {
		return "span-body", fmt.Sprintf("span body %.40x (len %d), written %.40x (len %d)", s.Span, len(s.Span), v.body, len(v.body))
	}
	if s.SpanId != m.spanID(id) {
		return "span-id", fmt.Sprintf("span_id %q, written %q", s.SpanId, m.spanID(id))
	}
	for _, n := range traceTagOrder {
		got := traceFindTag(s, n)
		if got == nil {
			return "tag-absent", n + " is not in the projection result"
		}
		w := want[n]
		// What the trace API can and cannot distinguish (found empirically, stable over memory parts, file parts, merges):
		//   string / int / timestamp   the value comes back as written; an explicit null comes back as null
		//   binary        nil and empty are the same protobuf value; an explicit null comes back as null
		//   arrays        an empty (or nil) array has no stored representation of its own: it comes back as null or as an
		//                 empty array, and so does an explicit null: ONE equivalence class.  Arrays with elements -
		//                 including [""] - must match element by element.
		emptyArr := func(t *modelv1.TagValue) bool {
			switch x := t.GetValue().(type) {
			case *modelv1.TagValue_Null:
				return true
			case *modelv1.TagValue_IntArray:
				return len(x.IntArray.GetValue()) == 0
			case *modelv1.TagValue_StrArray:
				return len(x.StrArray.GetValue()) == 0
			}
			return false
		}
		ok := false
		switch x := w.GetValue().(type) {
		case *modelv1.TagValue_Null:
			ok = isNullTag(got) || ((n == "pa" || n == "pia") && emptyArr(got))
		case *modelv1.TagValue_Str:
			_, is := got.GetValue().(*modelv1.TagValue_Str)
			ok = is && got.GetStr().GetValue() == x.Str.GetValue()
		case *modelv1.TagValue_Int:
			_, is := got.GetValue().(*modelv1.TagValue_Int)
			ok = is && got.GetInt().GetValue() == x.Int.GetValue()
		case *modelv1.TagValue_BinaryData:
			_, is := got.GetValue().(*modelv1.TagValue_BinaryData)
			ok = is && string(got.GetBinaryData()) == string(x.BinaryData)
		case *modelv1.TagValue_Timestamp:
			_, is := got.GetValue().(*modelv1.TagValue_Timestamp)
			ok = is && got.GetTimestamp().GetSeconds() == x.Timestamp.GetSeconds() && got.GetTimestamp().GetNanos() == x.Timestamp.GetNanos()
		case *modelv1.TagValue_IntArray:
			if len(x.IntArray.GetValue()) == 0 {
				ok = emptyArr(got)
			} else {
				ok = got.GetIntArray() != nil && fmt.Sprint(got.GetIntArray().GetValue()) == fmt.Sprint(x.IntArray.GetValue())
			}
		case *modelv1.TagValue_StrArray:
			if len(x.StrArray.GetValue()) == 0 {
				ok = emptyArr(got)
			} else {
				ok = got.GetStrArray() != nil && len(got.GetStrArray().GetValue()) == len(x.StrArray.GetValue()) &&
					strings.Join(got.GetStrArray().GetValue(), "\x1f") == strings.Join(x.StrArray.GetValue(), "\x1f")
			}
		}
		if !ok {
			return "tag:" + n, fmt.Sprintf("%s=%.100s, written %.100s", n, got.String(), w.String())
		}
	}
	m.res.Inc("spans_compared")
	return "", ""
}

// viewByTrace groups the spec's logical content by trace key.
func (m *traceWorld) viewByTrace(st vlib.State) map[int][]map[string]any {
	out := map[int][]map[string]any{}
	for _, g := range vlib.List(st, "view") {
		for _, r := range g.([]any) {
			row := vlib.Rec(r)
			out[m.traceKey(row)] = append(out[m.traceKey(row)], row)
		}
	}
	return out
}

// matchTraces checks that the response holds exactly the expected traces (optional: may or may not appear - windows),
// each trace once, each with exactly the acknowledged spans of that trace, every span exactly as written.
func (m *traceWorld) matchTraces(ts []*tracev1.Trace, expect map[int]bool, optional bool, st vlib.State) (string, string) {
	view := m.viewByTrace(st)
	byName := map[string]int{}
	for k := range view {
		byName[m.traceID(k)] = k
	}
	acked := ackedMap(st)
	seen := map[int]bool{}
	for _, t := range ts {
		k, ok := byName[t.TraceId]
		if !ok {
			return "phantom-trace", fmt.Sprintf("returned trace %q was never written", t.TraceId)
		}
		if !expect[k] {
			return "unexpected-trace", fmt.Sprintf("trace %q must not be in this result", t.TraceId)
		}
		if seen[k] {
			return "duplicate-trace", fmt.Sprintf("trace %q returned twice", t.TraceId)
		}
		seen[k] = true
		got := map[int]bool{}
		for _, s := range t.Spans {
			rid := traceFindTag(s, "rid")
			if rid.GetInt() == nil {
				return "span-without-identity", fmt.Sprintf("a span of trace %q carries no rid tag: %.200s", t.TraceId, s.String())
			}
			id := int(rid.GetInt().GetValue())
			row, ok := acked[id]
			if !ok {
				return "phantom-row", fmt.Sprintf("returned span id %d of trace %q was never written", id, t.TraceId)
			}
			if m.traceKey(row) != k {
				return "span-in-wrong-trace", fmt.Sprintf("span id %d was written to trace %q, returned in trace %q", id, m.traceID(m.traceKey(row)), t.TraceId)
			}
			if got[id] {
				return "duplicate-row", fmt.Sprintf("span id %d of trace %q returned twice", id, t.TraceId)
			}
			got[id] = true
			if kind, msg := m.checkSpan(s, row); kind != "" {
				return "value-not-as-written:" + kind, fmt.Sprintf("span id %d of trace %q: %s", id, t.TraceId, msg)
			}
			if tv := traceFindTag(s, "trace_id"); tv.GetStr().GetValue() != t.TraceId {
				return "value-not-as-written:trace-id-tag", fmt.Sprintf("span id %d: tag trace_id=%q inside trace %q", id, tv.GetStr().GetValue(), t.TraceId)
			}
		}
		wantRows := view[k]
		if m.selftest == "drop-span" && len(wantRows) > 0 {
			wantRows = append(append([]map[string]any{}, wantRows...), map[string]any{"id": float64(9999), "s": float64(0), "t": float64(0)})
		}
		for _, row := range wantRows {
			if !got[vlib.Int(row, "id")] {
				return "missing-row", fmt.Sprintf("span id %d (series %v ts %v) of trace %q was not returned with its trace (the trace came back with %d of %d spans)",
					vlib.Int(row, "id"), row["s"], row["t"], t.TraceId, len(got), len(wantRows))
			}
		}
	}
	if !optional {
		for k := range expect {
			if !seen[k] {
				return "missing-trace", fmt.Sprintf("trace %q (%d spans) was not returned", m.traceID(k), len(view[k]))
			}
		}
	}
	m.res.Stats["traces_compared"] += len(ts)
	return "", ""
}

func (m *traceWorld) allTraceIDs(st vlib.State, absent bool) ([]string, map[int]bool) {
	view := m.viewByTrace(st)
	var ids []string
	all := map[int]bool{}
	for k := range view {
		ids = append(ids, m.traceID(k))
		all[k] = true
	}
	sort.Strings(ids)
	if absent {
		ids = append(ids, traceAbsentIDs...)
	}
	return ids, all
}

// rowKey is the sort key of a row under an index rule: minutes since base (idx-ts) or the tag a (idx-a).
func (m *traceWorld) rowKey(rule string, row map[string]any) int {
	if rule == "idx-a" {
		return vlib.Int(m.cfg.RowTags[fmt.Sprint(vlib.Int(row, "id"))], "a")
	}
	return vlib.Int(row, "t")
}

// traceKeys: order key of every trace that has a selected row (min for ASC, max for DESC).
func (m *traceWorld) traceKeys(rule string, asc bool, sel []map[string]any) map[int]int {
	out := map[int]int{}
	for _, r := range sel {
		k, v := m.traceKey(r), m.rowKey(rule, r)
		if cur, ok := out[k]; !ok || (asc && v < cur) || (!asc && v > cur) {
			out[k] = v
		}
	}
	return out
}

func windowOf(keys []int, asc bool, off, lim int) []int {
	keys = append([]int{}, keys...)
	sort.Slice(keys, func(i, j int) bool {
		if asc {
			return keys[i] < keys[j]
		}
		return keys[i] > keys[j]
	})
	hi := len(keys)
	if lim > 0 && off+lim < hi {
		hi = off + lim
	}
	if off >= len(keys) {
		return []int{}
	}
	return keys[off:hi]
}

// checkCover runs the covering queries after every step and compares with the spec's logical content.
func (m *traceWorld) checkCover(ctx context.Context, st vlib.State, op string, fail func(string, string, ...any)) bool {
	ids, all := m.allTraceIDs(st, true)
	var allRows []map[string]any
	for _, rs := range m.viewByTrace(st) {
		allRows = append(allRows, rs...)
	}
	req := m.baseReq()
	req.Criteria = traceCond("trace_id", modelv1.Condition_BINARY_OP_IN, tagStrs(ids))
	resp, err := m.query(ctx, req)
	if err != nil {
		fail("query-failed-after-"+op, "covering query by trace ids: %v", err)
		return false
	}
	m.res.Inc("cover_queries_by_trace_id")
	if m.debug {
		for _, t := range resp.Traces {
			fmt.Printf("DEBUG cover after %s: trace %q\n", op, t.TraceId)
			for _, s := range t.Spans {
				fmt.Printf("DEBUG    span_id=%q body=%.40x\n", s.SpanId, s.Span)
				for _, tg := range s.Tags {
					fmt.Printf("DEBUG       %s = %.120s\n", tg.Key, tg.Value.String())
				}
			}
		}
	}
	if sig, msg := m.matchTraces(resp.Traces, all, false, st); sig != "" {
		fail(sig+"-after-"+op, "cover by trace ids: %s", msg)
		return false
	}
	for _, rule := range []string{"idx-ts", "idx-a"} {
		if m.rulesDef() == nil {
			break
		}
		for _, asc := range []bool{true, false} {
			if asc != ((m.curStep+len(rule))%2 == 0) {
				continue // one direction per rule and step, alternating
			}
			req = m.baseReq()
			req.OrderBy = &modelv1.QueryOrder{IndexRuleName: rule, Sort: modelv1.Sort_SORT_ASC}
			if !asc {
				req.OrderBy.Sort = modelv1.Sort_SORT_DESC
			}
			resp, err = m.query(ctx, req)
			if err != nil {
				fail("query-failed-after-"+op, "covering query ordered by %s: %v", rule, err)
				return false
			}
			m.res.Inc("cover_queries_by_" + rule)
			if m.debug {
				for _, t := range resp.Traces {
					fmt.Printf("DEBUG cover by %s asc=%v after %s: trace %q with %d spans\n", rule, asc, op, t.TraceId, len(t.Spans))
				}
			}
			if sig, msg := m.matchTraces(resp.Traces, all, false, st); sig != "" {
				fail(sig+"-after-"+op, "cover ordered by %s asc=%v: %s", rule, asc, msg)
				return false
			}
			if sig, msg := m.checkOrder(resp.Traces, rule, asc, allRows, 0, 0, st); sig != "" {
				fail(sig+"-after-"+op, "cover ordered by %s asc=%v: %s", rule, asc, msg)
				return false
			}
		}
	}
	return true
}

// checkOrder: the sequence of order keys of the returned traces is the expected window.
func (m *traceWorld) checkOrder(ts []*tracev1.Trace, rule string, asc bool, sel []map[string]any, off, lim int, st vlib.State) (string, string) {
	tk := m.traceKeys(rule, asc, sel)
	var keys []int
	for _, v := range tk {
		keys = append(keys, v)
	}
	want := windowOf(keys, asc, off, lim)
	byName := map[string]int{}
	for k := range m.viewByTrace(st) {
		byName[m.traceID(k)] = k
	}
	got := []int{}
	for _, t := range ts {
		got = append(got, tk[byName[t.TraceId]])
	}
	if fmt.Sprint(got) == fmt.Sprint(want) {
		return "", ""
	}
	kind := "window-differs"
	sorted := sort.SliceIsSorted(got, func(i, j int) bool {
		if asc {
			return got[i] < got[j]
		}
		return got[i] > got[j]
	})
	switch {
	case !sorted:
		kind = "result-not-sorted"
	case len(got) != len(want):
		kind = "window-size-differs"
	}
	dir := map[bool]string{true: "asc", false: "desc"}[asc]
	return kind + ":" + rule + ":" + dir, fmt.Sprintf("ordered by %s %s offset=%d limit=%d: order keys of the returned traces %v, expected window %v", rule, dir, off, lim, got, want)
}

// checkSingleTraces fetches every trace of the view on its own (trace_id = T) and two ids that were never written.
func (m *traceWorld) checkSingleTraces(ctx context.Context, st vlib.State, fail func(string, string, ...any)) {
	view := m.viewByTrace(st)
	var ks []int
	for k := range view {
		ks = append(ks, k)
	}
	sort.Ints(ks)
	for _, k := range ks {
		req := m.baseReq()
		req.Criteria = traceCond("trace_id", modelv1.Condition_BINARY_OP_EQ, tagStr(m.traceID(k)))
		resp, err := m.query(ctx, req)
		m.res.Inc("single_trace_queries")
		if err != nil {
			fail("query-rejected:trace-id-eq", "query trace_id = %q failed: %v", m.traceID(k), err)
			return
		}
		if sig, msg := m.matchTraces(resp.Traces, map[int]bool{k: true}, false, st); sig != "" {
			fail(sig+"-in-single-trace-query", "%s; query trace_id = %q; layout %s", msg, m.traceID(k), m.layout(st))
			return
		}
	}
	for _, id := range traceAbsentIDs[:2] {
		req := m.baseReq()
		req.Criteria = traceCond("trace_id", modelv1.Condition_BINARY_OP_EQ, tagStr(id))
		resp, err := m.query(ctx, req)
		m.res.Inc("single_trace_queries")
		if err != nil {
			fail("query-rejected:trace-id-eq", "query trace_id = %q failed: %v", id, err)
			return
		}
		if len(resp.Traces) != 0 {
			fail("phantom-trace-in-single-trace-query", "query for the never written trace id %q returned %d traces", id, len(resp.Traces))
			return
		}
	}
}

// traceLeafCriteria translates a spec leaf (the same literals as the stream binding).
func traceLeafCriteria(c map[string]any) *modelv1.Criteria { return streamLeafCriteria(c) }

func (m *traceWorld) layout(st vlib.State) string {
	acked := ackedMap(st)
	var parts []string
	for _, pv := range vlib.List(st, "parts") {
		p := vlib.Rec(pv)
		kind := "file"
		if vlib.Bool(p, "mem") {
			kind = "mem"
		}
		ids := vlib.Ints(vlib.List(p, "rows"))
		sort.Ints(ids)
		var rows []string
		for _, id := range ids {
			a, b, arr := m.rowTags(id)
			rows = append(rows, fmt.Sprintf("%d(trace %q s%d t%d a=%d b=%s arr=%v)", id, m.traceID(m.traceKey(acked[id])), vlib.Int(acked[id], "s"), vlib.Int(acked[id], "t"), a, b, arr))
		}
		parts = append(parts, fmt.Sprintf("%s#%d/real%d{%s}", kind, vlib.Int(p, "pid"), m.pids[vlib.Int(p, "pid")], strings.Join(rows, " ")))
	}
	sort.Strings(parts)
	return strings.Join(parts, " ")
}

// unsupported recognises the refusals the engine documents in its error texts: such a query form is skipped with a
// counter, it is not a verdict.
func traceUnsupported(err error) string {
	s := err.Error()
	switch {
	case strings.Contains(s, "global index doesn't support OR"):
		return "or_next_to_trace_id"
	case strings.Contains(s, "not supported for array type"):
		return "in_on_array_tag"
	}
	return ""
}

// keyCondNotARange: the criteria constrain tag a by something else than a range or an equality, or inside an OR.
func keyCondNotARange(c map[string]any) bool {
	leafOn := func(l map[string]any, ops ...string) bool {
		if vlib.Str(l, "tag") != "a" || vlib.Str(l, "op") == "true" {
			return false
		}
		if len(ops) == 0 {
			return true
		}
		for _, o := range ops {
			if vlib.Str(l, "op") == o {
				return true
			}
		}
		return false
	}
	c1, c2 := vlib.Map(c, "c1"), vlib.Map(c, "c2")
	switch vlib.Str(c, "conn") {
	case "one":
		return leafOn(c1, "ne", "in", "notin")
	case "and":
		return leafOn(c1, "ne", "in", "notin") || leafOn(c2, "ne", "in", "notin")
	}
	return leafOn(c1) || leafOn(c2)
}

// checkQuery asks one spec query in every applicable form (see the table at the top of the file).
func (m *traceWorld) checkQuery(ctx context.Context, st vlib.State, ev map[string]any, fail func(string, string, ...any)) {
	q := vlib.Map(ev, "q")
	acked := ackedMap(st)
	view := m.viewByTrace(st)
	lo, hi := vlib.Int(q, "lo"), vlib.Int(q, "hi")
	ordered := vlib.Str(q, "order") == "time"
	asc := !ordered || vlib.Bool(q, "asc")
	off, lim := 0, 0
	if ordered {
		off, lim = vlib.Int(q, "offset"), vlib.Int(q, "limit")
	}
	crit := vlib.Map(q, "crit")
	c1 := vlib.Map(crit, "c1")
	desc := vlib.Canon(q)
	ops := critOps(crit)
	// S: the selected rows of the spec; E: their traces
	var sel []map[string]any
	E := map[int]bool{}
	for _, g := range vlib.List(ev, "groups") {
		for _, r := range g.([]any) {
			row := acked[vlib.Int(vlib.Rec(r), "id")]
			sel = append(sel, row)
			E[m.traceKey(row)] = true
		}
	}
	// series restriction
	wantS := map[int]bool{}
	series := vlib.Ints(vlib.List(q, "series"))
	sort.Ints(series)
	for _, s := range series {
		wantS[s] = true
	}
	restrict := false
	covers := true
	for _, r := range acked {
		if !wantS[vlib.Int(r, "s")] {
			restrict = true
		}
		if t := vlib.Int(r, "t"); t < lo || t > hi {
			covers = false
		}
	}
	var svcCond *modelv1.Criteria
	if restrict {
		svcCond = traceCond("svc", modelv1.Condition_BINARY_OP_EQ, tagStr(m.seriesName(series[0])))
		if len(series) > 1 {
			var names []string
			for _, s := range series {
				names = append(names, m.seriesName(s))
			}
			svcCond = traceCond("svc", modelv1.Condition_BINARY_OP_IN, tagStrs(names))
		}
	}
	userCrit := streamCriteriaOf(crit)
	setLimit := func(req *tracev1.QueryRequest) {
		req.Offset = uint32(off)
		if lim > 0 {
			req.Limit = uint32(lim)
		}
	}
	var lastReq *tracev1.QueryRequest
	report := func(form, sig, msg string, got []*tracev1.Trace) {
		if m.debug && lastReq != nil && os.Getenv("VERIF_TRACE_QTRACE") != "" {
			lastReq.Trace = true
			if r, err := m.query(ctx, lastReq); err == nil {
				fmt.Printf("DEBUGQ %s %s %s\n   request %s\n   %s\n", form, sig, ops, lastReq.String(), r.TraceQueryResult.String())
			}
		}
		var names []string
		for _, t := range got {
			names = append(names, fmt.Sprintf("%q(%d spans)", t.TraceId, len(t.Spans)))
		}
		var want []string
		for k := range E {
			want = append(want, fmt.Sprintf("%q", m.traceID(k)))
		}
		sort.Strings(want)
		fail(sig+"-in-query:"+form+":"+ops+":"+m.cfg.Index, "%s; form %s; returned %v; traces of the spec's selected rows %v (selected span ids %v); layout %s; query %s",
			msg, form, names, want, groupIDs(vlib.List(ev, "groups")), m.layout(st), desc)
	}

	// ---- form id: trace_id IN C ------------------------------------------------------------------------
	func() {
		C := map[int]bool{}
		var cands []string
		for k, rows := range view {
			inside := true
			for _, r := range rows {
				if t := vlib.Int(r, "t"); t < lo || t > hi {
					inside = false
				}
			}
			if inside && (m.mode != "series" || wantS[k]) {
				C[k] = true
				cands = append(cands, m.traceID(k))
			}
		}
		if len(C) == 0 {
			m.res.Inc("form_id_skipped_no_trace_inside_time_range")
			return
		}
		if ordered && (off > 0 || lim > 0) {
			m.res.Inc("form_id_skipped_window") // a trace-id query has no order: a window of it is not defined
			return
		}
		sort.Strings(cands)
		cands = append(cands, traceAbsentIDs[:2]...)
		c := traceCond("trace_id", modelv1.Condition_BINARY_OP_IN, tagStrs(cands))
		if len(cands) == 3 && (lo+hi)%2 == 0 {
			c = traceCond("trace_id", modelv1.Condition_BINARY_OP_EQ, tagStr(cands[0]))
		}
		if m.mode != "series" {
			c = traceAnd(c, svcCond)
		}
		req := m.baseReq()
		req.Criteria = traceAnd(c, userCrit)
		m.guard("server-crashed-by-query:id:"+ops+":"+m.cfg.Index, "the server process died while executing query %s (form id); layout %s", desc, m.layout(st))
		lastReq = req
		resp, err := m.query(ctx, req)
		if err != nil {
			if why := traceUnsupported(err); why != "" {
				m.res.Inc("form_id_unsupported_" + why)
				return
			}
			fail("query-rejected:id:"+vlib.Str(c1, "op")+":"+vlib.Str(c1, "tag")+":"+m.cfg.Index, "query %s (form id) failed: %v", desc, err)
			return
		}
		m.res.Inc("criteria_queries_form_id")
		exp := map[int]bool{}
		for k := range E {
			if C[k] {
				exp[k] = true
			}
		}
		if sig, msg := m.matchTraces(resp.Traces, exp, false, st); sig != "" {
			report("id", sig, msg, resp.Traces)
		}
	}()
	if m.rulesDef() == nil {
		return
	}
	// ---- forms ts / a: ORDER BY an index rule ------------------------------------------------------------
	for _, rule := range []string{"idx-ts", "idx-a"} {
		if rule == "idx-a" && !covers {
			m.res.Inc("form_a_skipped_time_range_not_expressible")
			continue
		}
		dirs := []bool{asc}
		if !ordered {
			dirs = []bool{(lo+hi+len(sel))%2 == 0} // unordered spec query: one direction, alternating
		}
		for _, d := range dirs {
			req := m.baseReq()
			if rule == "idx-ts" {
				req.TimeRange = &modelv1.TimeRange{Begin: timestamppb.New(m.ts(lo)), End: timestamppb.New(m.ts(hi).Add(time.Millisecond))}
			}
			req.Criteria = traceAnd(svcCond, userCrit)
			req.OrderBy = &modelv1.QueryOrder{IndexRuleName: rule, Sort: modelv1.Sort_SORT_ASC}
			if !d {
				req.OrderBy.Sort = modelv1.Sort_SORT_DESC
			}
			setLimit(req)
			form := strings.TrimPrefix(rule, "idx-")
			m.guard("server-crashed-by-query:"+form+":"+ops+":"+m.cfg.Index, "the server process died while executing query %s (form %s); layout %s", desc, form, m.layout(st))
			lastReq = req
			resp, err := m.query(ctx, req)
			if err != nil {
				if why := traceUnsupported(err); why != "" {
					m.res.Inc("form_" + form + "_unsupported_" + why)
					continue
				}
				fail("query-rejected:"+form+":"+vlib.Str(c1, "op")+":"+vlib.Str(c1, "tag")+":"+m.cfg.Index, "query %s (form %s) failed: %v", desc, form, err)
				continue
			}
			m.res.Inc("criteria_queries_form_" + form)
			if ordered {
				m.res.Inc("window_queries_by_" + rule)
			}
			window := off > 0 || lim > 0
			if sig, msg := m.matchTraces(resp.Traces, E, window, st); sig != "" {
				report(form, sig, msg, resp.Traces)
				continue
			}
			if rule == "idx-a" && keyCondNotARange(crit) {
				// NE / IN / NOT_IN on the key tag of the ordering rule, or an OR that mentions it, cannot narrow the key range:
				// the engine decides them on the spans of the candidate traces, and a trace of several spans keeps the
				// order key of its first element whatever that element's key is.  The SET is checked above, the order is not.
				m.res.Inc("form_a_order_not_checked_key_condition_is_not_a_range")
				continue
			}
			if sig, msg := m.checkOrder(resp.Traces, rule, d, sel, off, lim, st); sig != "" {
				report(form, sig, msg, resp.Traces)
				continue
			}
			if ordered && rule == "idx-ts" && m.mode == "row" {
				// one span per trace: the derived window must be TLC's own window
				var keys []int
				for _, v := range m.traceKeys(rule, d, sel) {
					keys = append(keys, v)
				}
				if w := windowOf(keys, d, off, lim); fmt.Sprint(w) != fmt.Sprint(vlib.Ints(vlib.List(ev, "wkeys"))) {
					m.res.Inconclusive = append(m.res.Inconclusive, fmt.Sprintf("harness: derived window %v differs from the spec's wkeys %v for %s", w, vlib.Ints(vlib.List(ev, "wkeys")), desc))
				} else {
					m.res.Inc("windows_equal_to_tlc_wkeys")
				}
			}
		}
	}
}
