package main

// Stream binding of spec/Engine.tla (Versioned = FALSE: every acknowledged element is its own result row;
// TagsBySeries = FALSE: the queried tags are per element).  Mirrors measure.go: one fresh group + stream per
// behaviour, one gRPC write stream per batch, flush / merge run by the real flusher / merger code through the
// verif hooks of banyand/stream, covering query after every step, criteria and ordered queries at query steps.

import (
	"context"
	"flag"
	"fmt"
	"io"
	"math"
	"math/rand"
	"os"
	"sort"
	"strings"
	"time"

	"google.golang.org/protobuf/types/known/timestamppb"

	commonv1 "github.com/apache/skywalking-banyandb/api/proto/banyandb/common/v1"
	databasev1 "github.com/apache/skywalking-banyandb/api/proto/banyandb/database/v1"
	modelv1 "github.com/apache/skywalking-banyandb/api/proto/banyandb/model/v1"
	streamv1 "github.com/apache/skywalking-banyandb/api/proto/banyandb/stream/v1"
	"github.com/apache/skywalking-banyandb/banyand/stream"
	"github.com/apache/skywalking-banyandb/banyand/verifharness/vlib"
)

func init() {
	engines["stream"] = func(srv *server, cfg config, group string, res *vlib.Result) world {
		return newStreamWorld(srv, cfg, group, res)
	}
	engineInit["stream"] = func() []string {
		stream.VerifSetManual(true)
		return []string{"--stream-flush-timeout=1h"}
	}
}

const (
	streamName   = "st"
	streamFamIdx = "searchable"
	streamFamDat = "data"
)

// ---- concretisation: id -> adversarial concrete values (seeded) -----------------------------------------

var (
	sIntPool = []int64{0, 1, -1, math.MaxInt64, math.MinInt64, 1<<53 + 1, -(1<<53 + 1), 255, 256, 65535, 4294967296, -4294967297, 1234567890123}
	sStrPool = []string{"", "x", "a|b\\c", "üñí-çødé ☃", "with \"quotes\" and 'single'", "\x00nul", "mid\x00nul\x00", strings.Repeat("long-", 300), " lead/trail ", "|", "\\"}
	sBinPool = [][]byte{nil, {}, {0}, {0, 0}, {0xff, 0x00, 0x7c, 0x5c}, []byte("|"), []byte(strings.Repeat("\x01\x02\x03", 400))}
	sSaPool  = [][]string{nil, {}, {""}, {"", ""}, {"a", "b|"}, {"x", "x", "y"}, {"\x00", "a\\|b"}, {strings.Repeat("z", 700), ""}}
	sIaPool  = [][]int64{nil, {}, {0}, {math.MinInt64, math.MaxInt64}, {7, 7, -7}, {1, 2, 3, 4, 5, 6, 7, 8, 9, 10}}
)

type streamVals struct {
	ps   string
	pb   []byte
	pa   []string
	pia  []int64
	null uint8 // bit 0: ps written as explicit null, bit 1: pb, bit 2: pa, bit 3: pia
}

func (m *streamWorld) vals(id int) streamVals {
	r := rand.New(rand.NewSource(m.seed*1000003 + int64(id)*7919 + 17))
	pick := func(n int) int { return r.Intn(n) }
	v := streamVals{ps: sStrPool[pick(len(sStrPool))], pb: sBinPool[pick(len(sBinPool))], pa: sSaPool[pick(len(sSaPool))], pia: sIaPool[pick(len(sIaPool))]}
	if pick(4) == 0 {
		v.pia = []int64{r.Int63() - r.Int63(), sIntPool[pick(len(sIntPool))]}
	}
	if pick(4) == 0 {
		b := make([]byte, 1+pick(24))
		r.Read(b)
		v.pb = b
	}
	for bit := 0; bit < 4; bit++ {
		if pick(7) == 0 {
			v.null |= 1 << bit
		}
	}
	if id%4 == 2 {
		// whatever the seed: a string array whose element carries the escape byte in front of the delimiter byte (the
		// array codec removes escapes in place when it decodes), never written as null
		v.pa = []string{"\x00", "a\\|b"}
		v.null &^= 1 << 2
	}
	if m.cfg.Big && pick(5) == 0 {
		v.ps = strings.Repeat(fmt.Sprintf("%08d", id), 40000) // 320 KB: several of these cross the 2 MiB block limit
	}
	return v
}

// ---- world ---------------------------------------------------------------------------------------------

type streamWorld struct {
	base     time.Time
	srv      *server
	res      *vlib.Result
	pids     map[int]uint64 // spec part id -> real part id
	pbatch   map[int]map[int]bool // spec part id -> write batches whose rows (and ballast) went into it
	group    string
	root     string
	cfg      config
	seed     int64
	msgID    uint64
	debug    bool
	eids     map[int]string // row id -> element id seen in results
	curB     int            // behaviour id and step under replay (crash guard)
	curStep  int
	eidOwner map[string]int
}

func newStreamWorld(srv *server, cfg config, group string, res *vlib.Result) *streamWorld {
	now := time.Now().UTC()
	base := time.Date(now.Year(), now.Month(), now.Day(), 1, 0, 0, 0, time.UTC)
	return &streamWorld{srv: srv, cfg: cfg, group: group, res: res, seed: vlib.Seed(), base: base, pids: map[int]uint64{}, eids: map[int]string{}, eidOwner: map[string]int{},
		debug: os.Getenv("VERIF_STREAM_DEBUG") != ""}
}

func (m *streamWorld) ts(t int) time.Time { return m.base.Add(time.Duration(t) * time.Minute) }

func (m *streamWorld) seriesName(s int) string {
	names := []string{"", "svc-1", "svc|2\\", "svc-10", ""}
	if s < len(names) && names[s] != "" {
		return names[s]
	}
	return fmt.Sprintf("svc-%d", s)
}

func (m *streamWorld) indexType() (databasev1.IndexRule_Type, bool) {
	switch m.cfg.Index {
	case "inverted":
		return databasev1.IndexRule_TYPE_INVERTED, true
	case "skipping":
		return databasev1.IndexRule_TYPE_SKIPPING, true
	}
	return databasev1.IndexRule_TYPE_UNSPECIFIED, false
}

func (m *streamWorld) setup(ctx context.Context) error {
	gc := databasev1.NewGroupRegistryServiceClient(m.srv.conn)
	_, err := gc.Create(ctx, &databasev1.GroupRegistryServiceCreateRequest{Group: &commonv1.Group{
		Metadata: &commonv1.Metadata{Name: m.group},
		Catalog:  commonv1.Catalog_CATALOG_STREAM,
		ResourceOpts: &commonv1.ResourceOpts{
			ShardNum:        uint32(max(1, m.cfg.Shards)),
			SegmentInterval: &commonv1.IntervalRule{Unit: commonv1.IntervalRule_UNIT_DAY, Num: 1},
			Ttl:             &commonv1.IntervalRule{Unit: commonv1.IntervalRule_UNIT_DAY, Num: 30},
		},
	}})
	if err != nil {
		return fmt.Errorf("create group: %w", err)
	}
	sc := databasev1.NewStreamRegistryServiceClient(m.srv.conn)
	_, err = sc.Create(ctx, &databasev1.StreamRegistryServiceCreateRequest{Stream: &databasev1.Stream{
		Metadata: &commonv1.Metadata{Name: streamName, Group: m.group},
		TagFamilies: []*databasev1.TagFamilySpec{
			{Name: streamFamIdx, Tags: []*databasev1.TagSpec{
				{Name: "svc", Type: databasev1.TagType_TAG_TYPE_STRING},
				{Name: "rid", Type: databasev1.TagType_TAG_TYPE_INT},
				{Name: "a", Type: databasev1.TagType_TAG_TYPE_INT},
				{Name: "b", Type: databasev1.TagType_TAG_TYPE_STRING},
				{Name: "arr", Type: databasev1.TagType_TAG_TYPE_INT_ARRAY},
			}},
			// payload tags of every type the stream engine stores.  TAG_TYPE_TIMESTAMP is accepted by the registry but the
			// stream write path panics on it ("unsupported tag value type: *v1.TagValue_Timestamp", write fails with
			// code Internal and the supervisor shuts the server down): only the trace engine implements it.
			{Name: streamFamDat, Tags: []*databasev1.TagSpec{
				{Name: "ps", Type: databasev1.TagType_TAG_TYPE_STRING},
				{Name: "pb", Type: databasev1.TagType_TAG_TYPE_DATA_BINARY},
				{Name: "pa", Type: databasev1.TagType_TAG_TYPE_STRING_ARRAY},
				{Name: "pia", Type: databasev1.TagType_TAG_TYPE_INT_ARRAY},
			}},
		},
		Entity: &databasev1.Entity{TagNames: []string{"svc"}},
	}})
	if err != nil {
		return fmt.Errorf("create stream: %w", err)
	}
	probe := m.coverReq()
	if typ, ok := m.indexType(); ok {
		ic := databasev1.NewIndexRuleRegistryServiceClient(m.srv.conn)
		for _, t := range []string{"a", "b"} {
			if _, err = ic.Create(ctx, &databasev1.IndexRuleRegistryServiceCreateRequest{IndexRule: &databasev1.IndexRule{
				Metadata: &commonv1.Metadata{Name: m.ruleName(t), Group: m.group}, Tags: []string{t}, Type: typ,
			}}); err != nil {
				return fmt.Errorf("create index rule: %w", err)
			}
		}
		bc := databasev1.NewIndexRuleBindingRegistryServiceClient(m.srv.conn)
		if _, err = bc.Create(ctx, &databasev1.IndexRuleBindingRegistryServiceCreateRequest{IndexRuleBinding: &databasev1.IndexRuleBinding{
			Metadata: &commonv1.Metadata{Name: "bind", Group: m.group}, Rules: []string{m.ruleName("a"), m.ruleName("b")},
			Subject: &databasev1.Subject{Catalog: commonv1.Catalog_CATALOG_STREAM, Name: streamName},
			BeginAt: timestamppb.New(m.base.Add(-24 * time.Hour)), ExpireAt: timestamppb.New(m.base.Add(24 * 365 * time.Hour)),
		}}); err != nil {
			return fmt.Errorf("create binding: %w", err)
		}
		// criteria on unindexed tags are accepted by the stream engine, so they cannot tell whether the binding has
		// reached the stream's schema; ordering by an index rule can: it is rejected ("index is not define for the tag")
		// until the stream object - the one the write path takes its index rules from - knows the rule
		probe.OrderBy = &modelv1.QueryOrder{IndexRuleName: m.ruleName("b"), Sort: modelv1.Sort_SORT_ASC}
	}
	deadline := time.Now().Add(20 * time.Second)
	settled := 0
	for {
		_, qerr := m.query(ctx, probe)
		ready := qerr == nil
		if qerr != nil && probe.OrderBy != nil {
			// "index is not define for the tag" (sic) = the rule has not reached the stream yet; any other refusal
			// means the rule is known and the engine merely does not sort by this kind of index
			unknown := false
			for _, s := range []string{"not define", "not found", "not exist", "doesn't exist"} {
				unknown = unknown || strings.Contains(qerr.Error(), s)
			}
			ready = !unknown
		}
		if ready {
			settled++
			if settled >= 3 {
				return nil
			}
			time.Sleep(10 * time.Millisecond)
			continue
		}
		settled = 0
		if time.Now().After(deadline) {
			return fmt.Errorf("schema not served after 20s: %w", qerr)
		}
		time.Sleep(20 * time.Millisecond)
	}
}

// ruleName: VERIF_UNIQUE_RULES=1 gives every group its own index rule names (diagnosis of cross-group effects).
func (m *streamWorld) ruleName(tag string) string {
	if os.Getenv("VERIF_UNIQUE_RULES") != "" {
		return "idx-" + tag + "-" + m.group
	}
	return "idx-" + tag
}

func (m *streamWorld) teardown(ctx context.Context) {
	gc := databasev1.NewGroupRegistryServiceClient(m.srv.conn)
	cctx, cancel := context.WithTimeout(ctx, 10*time.Second)
	defer cancel()
	_, _ = gc.Delete(cctx, &databasev1.GroupRegistryServiceDeleteRequest{Group: m.group})
}

func (m *streamWorld) query(ctx context.Context, req *streamv1.QueryRequest) (*streamv1.QueryResponse, error) {
	cctx, cancel := context.WithTimeout(ctx, 30*time.Second)
	defer cancel()
	return streamv1.NewStreamServiceClient(m.srv.conn).Query(cctx, req)
}

func (m *streamWorld) coverReq() *streamv1.QueryRequest {
	return &streamv1.QueryRequest{
		Groups: []string{m.group}, Name: streamName,
		TimeRange: &modelv1.TimeRange{Begin: timestamppb.New(m.base.Add(-time.Hour)), End: timestamppb.New(m.base.Add(12 * time.Hour))},
		Projection: &modelv1.TagProjection{TagFamilies: []*modelv1.TagProjection_TagFamily{
			{Name: streamFamIdx, Tags: []string{"svc", "rid", "a", "b", "arr"}},
			{Name: streamFamDat, Tags: []string{"ps", "pb", "pa", "pia"}},
		}},
		Limit: 1000000,
	}
}

// ---- ballast (see config.Ballast) ------------------------------------------------------------------------

const ballastBase = 1000000

func ballastID(batch, j int) int { return ballastBase + batch*20000 + j }

func (m *streamWorld) ballastSeries(j int) string {
	if m.cfg.BallastMode == "wide" {
		return fmt.Sprintf("bw-%05d", j)
	}
	return m.seriesName(1)
}

func (m *streamWorld) ballastTime(batch, j int) time.Time {
	if m.cfg.BallastMode == "wide" {
		return m.ts(2).Add(time.Duration(2+batch) * time.Millisecond)
	}
	return m.ts(2).Add(time.Duration(2+j) * time.Millisecond)
}

func ballastPayload(batch, j int) string {
	return fmt.Sprintf("ballast-%d-%d-%07d", batch, j, (batch*7919+j*104729)%1000003)
}

func (m *streamWorld) ballastElement(batch, j int) *streamv1.ElementValue {
	id := ballastID(batch, j)
	return &streamv1.ElementValue{
		ElementId: fmt.Sprint(id),
		Timestamp: timestamppb.New(m.ballastTime(batch, j)),
		TagFamilies: []*modelv1.TagFamilyForWrite{
			{Tags: []*modelv1.TagValue{
				tagStr(m.ballastSeries(j)), tagInt(int64(id)), tagInt(int64(j % 3)), tagStr(fmt.Sprintf("b%02d", j%3)),
				{Value: &modelv1.TagValue_IntArray{IntArray: &modelv1.IntArray{Value: []int64{int64(j)}}}},
			}},
			{Tags: []*modelv1.TagValue{tagStr(ballastPayload(batch, j)), streamNull, streamNull, streamNull}},
		},
	}
}

// splitBallast separates the ballast elements of an answer from the elements the spec knows.
func (m *streamWorld) splitBallast(es []*streamv1.Element) (spec, ballast []*streamv1.Element) {
	if m.cfg.Ballast == 0 {
		return es, nil
	}
	for _, e := range es {
		if streamFindTag(e, "rid").GetInt().GetValue() >= ballastBase {
			ballast = append(ballast, e)
		} else {
			spec = append(spec, e)
		}
	}
	return
}

func batchesOf(acked map[int]map[string]any) map[int]bool {
	out := map[int]bool{}
	for _, r := range acked {
		out[vlib.Int(r, "batch")] = true
	}
	return out
}

// checkBallast: every ballast element of every acknowledged batch is returned exactly once, exactly as written.
func (m *streamWorld) checkBallast(ballast []*streamv1.Element, acked map[int]map[string]any) (string, string) {
	want := map[int][2]int{}
	for b := range batchesOf(acked) {
		for j := 0; j < m.cfg.Ballast; j++ {
			want[ballastID(b, j)] = [2]int{b, j}
		}
	}
	seen := map[int]bool{}
	for _, e := range ballast {
		id := int(streamFindTag(e, "rid").GetInt().GetValue())
		bj, ok := want[id]
		if !ok {
			return "phantom-row", fmt.Sprintf("returned ballast element id %d was never written", id)
		}
		if seen[id] {
			return "duplicate-element", fmt.Sprintf("ballast element id %d returned twice", id)
		}
		seen[id] = true
		if got := streamFindTag(e, "ps").GetStr().GetValue(); got != ballastPayload(bj[0], bj[1]) {
			return "value-not-as-written:ballast-string-tag", fmt.Sprintf("ballast element id %d (batch %d #%d): ps=%q, written %q", id, bj[0], bj[1], got, ballastPayload(bj[0], bj[1]))
		}
		if got := streamFindTag(e, "svc").GetStr().GetValue(); got != m.ballastSeries(bj[1]) {
			return "value-not-as-written:ballast-entity", fmt.Sprintf("ballast element id %d: svc=%q, written %q", id, got, m.ballastSeries(bj[1]))
		}
		if !e.Timestamp.AsTime().Equal(m.ballastTime(bj[0], bj[1])) {
			return "value-not-as-written:ballast-timestamp", fmt.Sprintf("ballast element id %d: timestamp %s, written %s", id, e.Timestamp.AsTime(), m.ballastTime(bj[0], bj[1]))
		}
		if got := streamFindTag(e, "arr").GetIntArray().GetValue(); len(got) != 1 || got[0] != int64(bj[1]) {
			return "value-not-as-written:ballast-int-array", fmt.Sprintf("ballast element id %d: arr=%v, written [%d]", id, got, bj[1])
		}
	}
	if len(seen) != len(want) {
		for id, bj := range want {
			if !seen[id] {
				return "missing-row", fmt.Sprintf("%d of %d ballast elements are missing, e.g. id %d (batch %d #%d)", len(want)-len(seen), len(want), id, bj[0], bj[1])
			}
		}
	}
	return "", ""
}

func (m *streamWorld) rowTags(id int) (a int64, b string, arr []int64) {
	t := m.cfg.RowTags[fmt.Sprint(id)]
	a = int64(vlib.Int(t, "a"))
	b = fmt.Sprintf("b%02d", vlib.Int(t, "b"))
	for _, x := range vlib.Ints(vlib.List(t, "arr")) {
		arr = append(arr, int64(x))
	}
	sort.Slice(arr, func(i, j int) bool { return arr[i] < arr[j] })
	return
}

// streamSigCount counts the reports per violation signature of query steps in this process.
var streamSigCount = map[string]int{}

var streamNull = &modelv1.TagValue{Value: &modelv1.TagValue_Null{}}

func (m *streamWorld) element(row map[string]any) *streamv1.ElementValue {
	id := vlib.Int(row, "id")
	v := m.vals(id)
	a, b, arr := m.rowTags(id)
	ps := tagStr(v.ps)
	pb := &modelv1.TagValue{Value: &modelv1.TagValue_BinaryData{BinaryData: v.pb}}
	pa := &modelv1.TagValue{Value: &modelv1.TagValue_StrArray{StrArray: &modelv1.StrArray{Value: v.pa}}}
	pia := &modelv1.TagValue{Value: &modelv1.TagValue_IntArray{IntArray: &modelv1.IntArray{Value: v.pia}}}
	if v.null&1 != 0 {
		ps = streamNull
	}
	if v.null&2 != 0 {
		pb = streamNull
	}
	if v.null&4 != 0 {
		pa = streamNull
	}
	if v.null&8 != 0 {
		pia = streamNull
	}
	when := m.ts(vlib.Int(row, "t"))
	if _, ok := row["sec"]; ok { // the concurrent driver spreads its elements over seconds
		when = m.base.Add(time.Duration(vlib.Int(row, "sec")) * time.Second)
	}
	return &streamv1.ElementValue{
		ElementId: fmt.Sprint(id),
		Timestamp: timestamppb.New(when),
		TagFamilies: []*modelv1.TagFamilyForWrite{
			{Tags: []*modelv1.TagValue{
				tagStr(m.seriesName(vlib.Int(row, "s"))), tagInt(int64(id)), tagInt(a), tagStr(b),
				{Value: &modelv1.TagValue_IntArray{IntArray: &modelv1.IntArray{Value: arr}}},
			}},
			{Tags: []*modelv1.TagValue{ps, pb, pa, pia}},
		},
	}
}

// write sends one batch = one gRPC write stream and waits for every acknowledgement.
func (m *streamWorld) write(ctx context.Context, rows []map[string]any) error {
	cctx, cancel := context.WithTimeout(ctx, 30*time.Second)
	defer cancel()
	st, err := streamv1.NewStreamServiceClient(m.srv.conn).Write(cctx)
	if err != nil {
		return err
	}
	md := &commonv1.Metadata{Name: streamName, Group: m.group}
	for _, r := range rows {
		m.msgID++
		if err = st.Send(&streamv1.WriteRequest{Metadata: md, Element: m.element(r), MessageId: m.msgID}); err != nil {
			return err
		}
	}
	sent := len(rows)
	if m.cfg.Ballast > 0 && len(rows) > 0 {
		batch := vlib.Int(rows[0], "batch")
		for j := 0; j < m.cfg.Ballast; j++ {
			m.msgID++
			if err = st.Send(&streamv1.WriteRequest{Metadata: md, Element: m.ballastElement(batch, j), MessageId: m.msgID}); err != nil {
				return err
			}
			sent++
		}
	}
	if err = st.CloseSend(); err != nil {
		return err
	}
	acks := 0
	for {
		resp, rerr := st.Recv()
		if rerr == io.EOF {
			break
		}
		if rerr != nil {
			return rerr
		}
		if resp.Status != modelv1.Status_STATUS_SUCCEED.String() {
			return fmt.Errorf("VIOLATION write not acknowledged: status %s", resp.Status)
		}
		acks++
	}
	if acks != sent {
		return fmt.Errorf("VIOLATION %d acknowledgements for %d elements", acks, sent)
	}
	return nil
}

// guard writes the result file AHEAD of an operation as if the process died in it.  An unrecovered panic in an engine
// goroutine takes the in-process server - and with it this harness - down before the result could be written, which
// would turn a server crash into "no result"; with the guard the crash is reported as a violation of the step that
// caused it (and reproduced like any other).  A normal exit overwrites the file.
func (m *streamWorld) guard(sig, format string, a ...any) {
	f := flag.Lookup("out")
	if f == nil || f.Value.String() == "" {
		return
	}
	cp := *m.res
	cp.Violations = append(append([]vlib.Violation{}, m.res.Violations...),
		vlib.Violation{Behaviour: m.curB, Step: m.curStep, Signature: sig, Detail: fmt.Sprintf(format, a...)})
	cp.Write(f.Value.String())
}

func (m *streamWorld) replay(ctx context.Context, b vlib.Behaviour) {
	for i, st := range b.States {
		if i == 0 {
			continue
		}
		ev := vlib.Map(st, "last")
		op := vlib.Str(ev, "op")
		m.curB, m.curStep = b.ID, i
		m.guard("process-died-during-"+op, "the server process died while step %d (%s) or its covering query was executed", i, op)
		m.res.Steps++
		m.res.Inc("op_" + op)
		fail := func(sig, format string, a ...any) { m.res.Violate(b.ID, i, sig, format, a...) }
		switch op {
		case "write":
			before := m.realParts()
			if err := m.write(ctx, sortedRows(vlib.List(ev, "rows"))); err != nil {
				if strings.HasPrefix(err.Error(), "VIOLATION") {
					fail("write-not-acknowledged", "%v", err)
				} else {
					m.res.Inconclusive = append(m.res.Inconclusive, "write: "+err.Error())
				}
				return
			}
			if m.cfg.Shards > 1 {
				break // several tables: the layout is not mapped (see config.Shards)
			}
			if m.root == "" {
				roots := stream.VerifTableRoots("/" + m.group + "/")
				if len(roots) != 1 {
					m.res.Inconclusive = append(m.res.Inconclusive, fmt.Sprintf("expected one table for group %s, found %v", m.group, roots))
					return
				}
				m.root = roots[0]
			}
			var fresh []uint64
			for id := range m.realParts() {
				if _, ok := before[id]; !ok {
					fresh = append(fresh, id)
				}
			}
			if len(fresh) != 1 {
				fail("write-did-not-add-one-part", "acknowledged batch produced %d new parts (%v)", len(fresh), fresh)
				return
			}
			m.pids[vlib.Int(ev, "part")] = fresh[0]
			if m.pbatch == nil {
				m.pbatch = map[int]map[int]bool{}
			}
			m.pbatch[vlib.Int(ev, "part")] = map[int]bool{}
			for _, r := range vlib.List(ev, "rows") {
				m.pbatch[vlib.Int(ev, "part")][vlib.Int(vlib.Rec(r), "batch")] = true
			}
		case "flush":
			if m.cfg.Shards > 1 {
				for _, r := range stream.VerifTableRoots("/" + m.group + "/") {
					if err := stream.VerifFlush(r); err != nil {
						m.res.Inconclusive = append(m.res.Inconclusive, "flush: "+err.Error())
						return
					}
				}
				m.res.Inc("multi_shard_flushes")
				break
			}
			if err := stream.VerifFlush(m.root); err != nil {
				m.res.Inconclusive = append(m.res.Inconclusive, "flush: "+err.Error())
				return
			}
		case "merge":
			if m.cfg.Shards > 1 {
				for _, r := range stream.VerifTableRoots("/" + m.group + "/") {
					_, ps := stream.VerifParts(r)
					var files []uint64
					for _, p := range ps {
						if !p.Mem {
							files = append(files, p.ID)
						}
					}
					if len(files) < 2 {
						continue
					}
					if _, err := stream.VerifMerge(r, files); err != nil {
						fail("merge-failed", "merging parts %v of %s: %v", files, r, err)
						return
					}
					m.res.Inc("multi_shard_merges")
				}
				break
			}
			var ids []uint64
			for _, p := range vlib.Ints(vlib.List(ev, "inputs")) {
				ids = append(ids, m.pids[p])
			}
			m.res.Inc(fmt.Sprintf("merge_fan_in_%d", len(ids)))
			out, err := stream.VerifMerge(m.root, ids)
			if err != nil {
				fail("merge-failed", "merging parts %v: %v", ids, err)
				return
			}
			m.pids[vlib.Int(ev, "out")] = out
			if m.pbatch != nil {
				u := map[int]bool{}
				for _, p := range vlib.Ints(vlib.List(ev, "inputs")) {
					for b := range m.pbatch[p] {
						u[b] = true
					}
				}
				m.pbatch[vlib.Int(ev, "out")] = u
			}
		case "query", "queryall":
			// queries are observations: every query of the step is evaluated and the behaviour goes on whatever they
			// return; a signature is reported a few times per process only (the result keeps 50 violations)
			once := func(sig, format string, a ...any) {
				if streamSigCount[sig] < 3 {
					streamSigCount[sig]++
					fail(sig, format, a...)
				} else {
					m.res.Inc("violations_not_listed")
				}
			}
			if op == "query" {
				m.checkQuery(ctx, st, ev, once)
				continue
			}
			for _, r := range vlib.List(ev, "res") {
				m.checkQuery(ctx, st, vlib.Rec(r), once)
			}
			continue
		}
		if m.cfg.Shards <= 1 && !m.checkParts(st, op, fail) {
			return
		}
		if !m.checkCover(ctx, st, op, fail) {
			return
		}
	}
}

func (m *streamWorld) realParts() map[uint64]stream.VerifPart {
	out := map[uint64]stream.VerifPart{}
	roots := []string{m.root}
	if m.root == "" {
		roots = stream.VerifTableRoots("/" + m.group + "/")
	}
	for _, r := range roots {
		_, ps := stream.VerifParts(r)
		for _, p := range ps {
			out[p.ID] = p
		}
	}
	return out
}

// checkParts compares the part layout (ids, memory/file, row counts, time span) with the spec state.
func (m *streamWorld) checkParts(st vlib.State, op string, fail func(string, string, ...any)) bool {
	real := m.realParts()
	want := vlib.List(st, "parts")
	if len(real) != len(want) {
		fail("part-layout-differs-after-"+op, "real snapshot has %d parts, spec %d", len(real), len(want))
		return false
	}
	acked := ackedMap(st)
	for _, pv := range want {
		p := vlib.Rec(pv)
		rp, ok := real[m.pids[vlib.Int(p, "pid")]]
		if !ok {
			fail("part-missing-after-"+op, "spec part %d (real %d) is not in the snapshot", vlib.Int(p, "pid"), m.pids[vlib.Int(p, "pid")])
			return false
		}
		if rp.Mem != vlib.Bool(p, "mem") {
			fail("part-kind-differs-after-"+op, "part %d: real mem=%v spec mem=%v", rp.ID, rp.Mem, vlib.Bool(p, "mem"))
			return false
		}
		// nothing is deduplicated in a stream: a part holds exactly the elements the spec puts into it
		ids := vlib.Ints(vlib.List(p, "rows"))
		wantCount := len(ids)
		lo, hi := int64(math.MaxInt64), int64(math.MinInt64)
		if m.cfg.Ballast > 0 {
			inPart := m.pbatch[vlib.Int(p, "pid")]
			wantCount += m.cfg.Ballast * len(inPart)
			for b := range inPart {
				for _, j := range []int{0, m.cfg.Ballast - 1} {
					if t := m.ballastTime(b, j).UnixNano(); t < lo {
						lo = t
					}
					if t := m.ballastTime(b, j).UnixNano(); t > hi {
						hi = t
					}
				}
			}
		}
		if int(rp.Count) != wantCount {
			fail("part-count-differs-after-"+op, "part %d holds %d elements, spec %d", rp.ID, rp.Count, wantCount)
			return false
		}
		for _, id := range ids {
			t := m.ts(vlib.Int(acked[id], "t")).UnixNano()
			if t < lo {
				lo = t
			}
			if t > hi {
				hi = t
			}
		}
		if len(ids) > 0 && (rp.MinTS != lo || rp.MaxTS != hi) {
			fail("part-timespan-differs-after-"+op, "part %d spans [%d, %d], its elements span [%d, %d]", rp.ID, rp.MinTS, rp.MaxTS, lo, hi)
			return false
		}
	}
	return true
}

// ---- result comparison -----------------------------------------------------------------------------------

func streamFindTag(e *streamv1.Element, name string) *modelv1.TagValue {
	for _, tf := range e.TagFamilies {
		for _, t := range tf.Tags {
			if t.Key == name {
				return t.Value
			}
		}
	}
	return nil
}

func isNullTag(t *modelv1.TagValue) bool {
	if t == nil {
		return false
	}
	_, ok := t.GetValue().(*modelv1.TagValue_Null)
	return ok
}

// checkRow compares one returned element with what was written for row id, bit-exactly.
func (m *streamWorld) checkRow(e *streamv1.Element, row map[string]any) (string, string) {
	id := vlib.Int(row, "id")
	v := m.vals(id)
	a, b, arr := m.rowTags(id)
	if got := e.Timestamp.AsTime(); !got.Equal(m.ts(vlib.Int(row, "t"))) {
		return "timestamp", fmt.Sprintf("timestamp %s, written %s", got, m.ts(vlib.Int(row, "t")))
	}
	if t := streamFindTag(e, "svc"); t.GetStr() == nil || t.GetStr().GetValue() != m.seriesName(vlib.Int(row, "s")) {
		return "entity-tag", fmt.Sprintf("svc=%v, written %q", t, m.seriesName(vlib.Int(row, "s")))
	}
	if t := streamFindTag(e, "a"); t.GetInt() == nil || t.GetInt().GetValue() != a {
		return "int-tag", fmt.Sprintf("a=%v, written %d", t, a)
	}
	if t := streamFindTag(e, "b"); t.GetStr() == nil || t.GetStr().GetValue() != b {
		return "string-tag", fmt.Sprintf("b=%v, written %q", t, b)
	}
	if t := streamFindTag(e, "arr"); t == nil {
		return "tag-absent", "arr is not in the projection result"
	} else if len(arr) == 0 {
		if !isNullTag(t) && !(t.GetIntArray() != nil && len(t.GetIntArray().GetValue()) == 0) {
			return "int-array-tag", fmt.Sprintf("arr=%v, written an empty array", t)
		}
	} else if t.GetIntArray() == nil || fmt.Sprint(t.GetIntArray().GetValue()) != fmt.Sprint(arr) {
		return "int-array-tag", fmt.Sprintf("arr=%v, written %v", t, arr)
	}
	// What the stream API can and cannot distinguish (found empirically, stable over memory parts, file parts and merges):
	//   string        "" comes back as the empty string, an explicit null as null: both must match exactly
	//   binary        nil and empty are the same protobuf value (empty bytes come back); an explicit null comes back as null
	//   string/int array   an empty (or nil) array has no stored representation of its own: it comes back as null, and so
	//                 does an explicit null; these three are ONE equivalence class here.  Arrays with elements - including
	//                 [""] and ["", ""] - must match element by element.
	t := streamFindTag(e, "ps")
	switch {
	case t == nil:
		return "tag-absent", "ps is not in the projection result"
	case v.null&1 != 0:
		if !isNullTag(t) {
			return "null-tag", fmt.Sprintf("ps=%v, written null", t)
		}
	case t.GetStr() == nil || t.GetStr().GetValue() != v.ps:
		return "string-tag-payload", fmt.Sprintf("ps=%.60q (len %d, null=%v), written %.60q (len %d)", t.GetStr().GetValue(), len(t.GetStr().GetValue()), isNullTag(t), v.ps, len(v.ps))
	}
	t = streamFindTag(e, "pb")
	_, isBin := t.GetValue().(*modelv1.TagValue_BinaryData)
	switch {
	case t == nil:
		return "tag-absent", "pb is not in the projection result"
	case v.null&2 != 0:
		if !isNullTag(t) {
			return "null-tag", fmt.Sprintf("pb=%v, written null", t)
		}
	case !isBin || string(t.GetBinaryData()) != string(v.pb):
		return "binary-tag", fmt.Sprintf("pb=%x (null=%v), written %x", t.GetBinaryData(), isNullTag(t), v.pb)
	}
	t = streamFindTag(e, "pa")
	switch {
	case t == nil:
		return "tag-absent", "pa is not in the projection result"
	case v.null&4 != 0 || len(v.pa) == 0:
		if !isNullTag(t) && !(t.GetStrArray() != nil && len(t.GetStrArray().GetValue()) == 0) {
			return "null-tag", fmt.Sprintf("pa=%v, written null/empty", t)
		}
	case t.GetStrArray() == nil || len(t.GetStrArray().GetValue()) != len(v.pa) || strings.Join(t.GetStrArray().GetValue(), "\x1f") != strings.Join(v.pa, "\x1f"):
		return "string-array-tag", fmt.Sprintf("pa=%.80q (null=%v), written %.80q", t.GetStrArray().GetValue(), isNullTag(t), v.pa)
	}
	t = streamFindTag(e, "pia")
	switch {
	case t == nil:
		return "tag-absent", "pia is not in the projection result"
	case v.null&8 != 0 || len(v.pia) == 0:
		if !isNullTag(t) && !(t.GetIntArray() != nil && len(t.GetIntArray().GetValue()) == 0) {
			return "null-tag", fmt.Sprintf("pia=%v, written null/empty", t)
		}
	case t.GetIntArray() == nil || fmt.Sprint(t.GetIntArray().GetValue()) != fmt.Sprint(v.pia):
		return "int-array-tag-payload", fmt.Sprintf("pia=%v (null=%v), written %v", t.GetIntArray().GetValue(), isNullTag(t), v.pia)
	}
	// the element id that comes back is the engine's own id of the element (not the client string): it must identify the
	// element and stay the same whatever part holds it
	if e.ElementId == "" {
		return "element-id", "empty element id"
	}
	if prev, ok := m.eids[id]; ok && prev != e.ElementId {
		return "element-id", fmt.Sprintf("element id %q, was %q in an earlier result", e.ElementId, prev)
	}
	if other, ok := m.eidOwner[e.ElementId]; ok && other != id {
		return "element-id", fmt.Sprintf("element id %q is also the id of element %d", e.ElementId, other)
	}
	m.eids[id], m.eidOwner[e.ElementId] = e.ElementId, id
	return "", ""
}

// matchGroups checks that the response holds exactly one element per expected group (a singleton in a stream) and
// nothing else.  optional: groups that may or may not appear (windows).
func (m *streamWorld) matchGroups(es []*streamv1.Element, groups []any, optional []any, acked map[int]map[string]any) (string, string) {
	byID := map[int]int{} // row id -> group index
	for gi, g := range groups {
		for _, r := range g.([]any) {
			byID[vlib.Int(vlib.Rec(r), "id")] = gi
		}
	}
	opt := map[int]bool{}
	for _, g := range optional {
		for _, r := range g.([]any) {
			opt[byID[vlib.Int(vlib.Rec(r), "id")]] = true
		}
	}
	seen := map[int]bool{}
	for _, e := range es {
		rid := streamFindTag(e, "rid")
		if rid.GetInt() == nil {
			return "row-without-identity", fmt.Sprintf("returned element carries no rid tag: %v", e)
		}
		id := int(rid.GetInt().GetValue())
		row, ok := acked[id]
		if !ok {
			return "phantom-row", fmt.Sprintf("returned element id %d was never written", id)
		}
		gi, ok := byID[id]
		if !ok {
			return "unexpected-row", fmt.Sprintf("element id %d (series %v ts %v) must not be in this result", id, row["s"], row["t"])
		}
		if seen[gi] {
			return "duplicate-row", fmt.Sprintf("element id %d (series %v ts %v) returned twice", id, row["s"], row["t"])
		}
		seen[gi] = true
		if kind, msg := m.checkRow(e, row); kind != "" {
			return "value-not-as-written:" + kind, fmt.Sprintf("element id %d: %s", id, msg)
		}
	}
	for gi, g := range groups {
		if !seen[gi] && !opt[gi] {
			r := vlib.Rec(g.([]any)[0])
			return "missing-row", fmt.Sprintf("element id %v (series %v ts %v) was not returned", r["id"], r["s"], r["t"])
		}
	}
	return "", ""
}

// checkCover runs the covering query after every step and compares with the spec's logical content.
func (m *streamWorld) checkCover(ctx context.Context, st vlib.State, op string, fail func(string, string, ...any)) bool {
	resp, err := m.query(ctx, m.coverReq())
	if err != nil {
		fail("query-failed-after-"+op, "covering query: %v", err)
		return false
	}
	m.res.Inc("cover_queries")
	if m.debug {
		for _, e := range resp.Elements {
			fmt.Printf("DEBUG cover after %s: id=%q ts=%s\n", op, e.ElementId, e.Timestamp.AsTime().Format(time.RFC3339Nano))
			for _, tf := range e.TagFamilies {
				for _, t := range tf.Tags {
					fmt.Printf("DEBUG    %s.%s = %.120s\n", tf.Name, t.Key, t.Value.String())
				}
			}
			id := int(streamFindTag(e, "rid").GetInt().GetValue())
			w := m.vals(id)
			fmt.Printf("DEBUG    written: ps=%.80q pb=%.80x(nil=%v) pa=%.80q(nil=%v) pia=%v(nil=%v) null=%04b\n", w.ps, w.pb, w.pb == nil, w.pa, w.pa == nil, w.pia, w.pia == nil, w.null)
		}
	}
	specEs, ballast := m.splitBallast(resp.Elements)
	m.noteDefaultOrder(specEs)
	if sig, msg := m.matchGroups(specEs, vlib.List(st, "view"), nil, ackedMap(st)); sig != "" {
		fail(sig+"-after-"+op, "%s", msg)
		return false
	}
	if m.cfg.Ballast > 0 {
		m.res.Stats["ballast_rows_compared"] += len(ballast)
		if sig, msg := m.checkBallast(ballast, ackedMap(st)); sig != "" {
			fail(sig+"-after-"+op, "%s", msg)
			return false
		}
	}
	return true
}

// noteDefaultOrder records (statistics only, nothing is asserted) how an unordered query happens to be ordered.
func (m *streamWorld) noteDefaultOrder(es []*streamv1.Element) {
	if len(es) < 2 {
		return
	}
	asc, desc := true, true
	for i := 1; i < len(es); i++ {
		d := es[i].Timestamp.AsTime().Compare(es[i-1].Timestamp.AsTime())
		if d < 0 {
			asc = false
		}
		if d > 0 {
			desc = false
		}
	}
	switch {
	case asc && desc:
		m.res.Inc("unordered_result_all_equal_ts")
	case asc:
		m.res.Inc("unordered_result_is_time_asc")
	case desc:
		m.res.Inc("unordered_result_is_time_desc")
	default:
		m.res.Inc("unordered_result_is_not_time_sorted")
	}
}

var streamBinOps = map[string]modelv1.Condition_BinaryOp{
	"eq": modelv1.Condition_BINARY_OP_EQ, "ne": modelv1.Condition_BINARY_OP_NE, "lt": modelv1.Condition_BINARY_OP_LT,
	"le": modelv1.Condition_BINARY_OP_LE, "gt": modelv1.Condition_BINARY_OP_GT, "ge": modelv1.Condition_BINARY_OP_GE,
	"in": modelv1.Condition_BINARY_OP_IN, "notin": modelv1.Condition_BINARY_OP_NOT_IN,
	"having": modelv1.Condition_BINARY_OP_HAVING, "nothaving": modelv1.Condition_BINARY_OP_NOT_HAVING,
}

func streamLeafCriteria(c map[string]any) *modelv1.Criteria {
	op := vlib.Str(c, "op")
	if op == "true" {
		return nil
	}
	tag := vlib.Str(c, "tag")
	vs := vlib.Ints(vlib.List(c, "v"))
	sort.Ints(vs)
	var val *modelv1.TagValue
	multi := op == "in" || op == "notin" || op == "having" || op == "nothaving"
	if multi && len(vs) > 0 && (vs[0]+len(vs))%2 == 1 {
		// a literal list means the set of its elements: a repeated element must not change the answer
		vs = append(vs, vs[0])
	}
	switch {
	case tag == "b" && multi:
		var ss []string
		for _, x := range vs {
			ss = append(ss, fmt.Sprintf("b%02d", x))
		}
		val = &modelv1.TagValue{Value: &modelv1.TagValue_StrArray{StrArray: &modelv1.StrArray{Value: ss}}}
	case tag == "b":
		val = tagStr(fmt.Sprintf("b%02d", vs[0]))
	case multi:
		var is []int64
		for _, x := range vs {
			is = append(is, int64(x))
		}
		val = &modelv1.TagValue{Value: &modelv1.TagValue_IntArray{IntArray: &modelv1.IntArray{Value: is}}}
	default:
		val = tagInt(int64(vs[0]))
	}
	return &modelv1.Criteria{Exp: &modelv1.Criteria_Condition{Condition: &modelv1.Condition{Name: tag, Op: streamBinOps[op], Value: val}}}
}

func streamCriteriaOf(c map[string]any) *modelv1.Criteria {
	conn := vlib.Str(c, "conn")
	l := streamLeafCriteria(vlib.Map(c, "c1"))
	if conn == "one" {
		return l
	}
	r := streamLeafCriteria(vlib.Map(c, "c2"))
	op := modelv1.LogicalExpression_LOGICAL_OP_AND
	if conn == "or" {
		op = modelv1.LogicalExpression_LOGICAL_OP_OR
	}
	if l == nil || r == nil { // a "true" leaf: AND keeps the other side, OR selects everything
		if conn == "and" {
			if l == nil {
				return r
			}
			return l
		}
		return nil
	}
	return &modelv1.Criteria{Exp: &modelv1.Criteria_Le{Le: &modelv1.LogicalExpression{Op: op, Left: l, Right: r}}}
}

// queryReq translates a spec query (time range, series set, criteria) without ordering.
func (m *streamWorld) queryReq(st vlib.State, q map[string]any) *streamv1.QueryRequest {
	req := m.coverReq()
	req.TimeRange = &modelv1.TimeRange{Begin: timestamppb.New(m.ts(vlib.Int(q, "lo"))), End: timestamppb.New(m.ts(vlib.Int(q, "hi")).Add(time.Millisecond))}
	req.Criteria = streamCriteriaOf(vlib.Map(q, "crit"))
	// series selection is expressed through the entity tag (EQ for one series, IN for several); a set that covers
	// every series written so far is no restriction
	want := map[int]bool{}
	series := vlib.Ints(vlib.List(q, "series"))
	sort.Ints(series)
	for _, s := range series {
		want[s] = true
	}
	restrict := false
	for _, r := range ackedMap(st) {
		if !want[vlib.Int(r, "s")] {
			restrict = true
		}
	}
	if restrict {
		cond := &modelv1.Condition{Name: "svc", Op: modelv1.Condition_BINARY_OP_EQ, Value: tagStr(m.seriesName(series[0]))}
		if len(series) > 1 {
			var names []string
			for _, s := range series {
				names = append(names, m.seriesName(s))
			}
			cond = &modelv1.Condition{Name: "svc", Op: modelv1.Condition_BINARY_OP_IN, Value: &modelv1.TagValue{Value: &modelv1.TagValue_StrArray{StrArray: &modelv1.StrArray{Value: names}}}}
		}
		ent := &modelv1.Criteria{Exp: &modelv1.Criteria_Condition{Condition: cond}}
		if req.Criteria == nil {
			req.Criteria = ent
		} else {
			req.Criteria = &modelv1.Criteria{Exp: &modelv1.Criteria_Le{Le: &modelv1.LogicalExpression{Op: modelv1.LogicalExpression_LOGICAL_OP_AND, Left: ent, Right: req.Criteria}}}
		}
	}
	return req
}

func (m *streamWorld) checkQuery(ctx context.Context, st vlib.State, ev map[string]any, fail func(string, string, ...any)) bool {
	q := vlib.Map(ev, "q")
	req := m.queryReq(st, q)
	ordered := vlib.Str(q, "order") == "time"
	asc := vlib.Bool(q, "asc")
	if ordered {
		req.OrderBy = &modelv1.QueryOrder{Sort: modelv1.Sort_SORT_ASC}
		if !asc {
			req.OrderBy.Sort = modelv1.Sort_SORT_DESC
		}
		req.Offset = uint32(vlib.Int(q, "offset"))
		if l := vlib.Int(q, "limit"); l > 0 {
			req.Limit = uint32(l)
		}
	}
	c1 := vlib.Map(vlib.Map(q, "crit"), "c1")
	desc := vlib.Canon(q)
	m.guard("server-crashed-by-query:"+critOps(vlib.Map(q, "crit"))+":"+m.cfg.Index, "the server process died while executing query %s; layout %s", desc, m.layout(st))
	resp, err := m.query(ctx, req)
	m.res.Inc("criteria_queries")
	if err != nil {
		fail("query-rejected:"+vlib.Str(c1, "op")+":"+vlib.Str(c1, "tag")+":"+m.cfg.Index, "query %s failed: %v", desc, err)
		return false
	}
	if ordered && m.cfg.Ballast > 0 {
		m.res.Inc("ordered_queries_skipped_in_ballast_family") // windows are defined on the spec's rows only
		return true
	}
	if ordered {
		want := vlib.Ints(vlib.List(ev, "wkeys"))
		key := func(e *streamv1.Element) int { return int(e.Timestamp.AsTime().Sub(m.base) / time.Minute) }
		if !m.checkWindow(resp.Elements, q, ev, st, "time", key, want, desc, fail) {
			return false
		}
		return m.checkIndexOrder(ctx, st, ev, q, desc, fail)
	}
	specEs, _ := m.splitBallast(resp.Elements)
	m.noteDefaultOrder(specEs)
	if sig, msg := m.matchGroups(specEs, vlib.List(ev, "groups"), vlib.List(ev, "ambiguous"), ackedMap(st)); sig != "" {
		fail(sig+"-in-query:"+vlib.Str(c1, "op")+":"+vlib.Str(c1, "tag")+":"+m.cfg.Index, "%s; returned ids %v, spec ids %v; layout %s; query %s", msg,
			m.idsOf(specEs), groupIDs(vlib.List(ev, "groups")), m.layout(st), desc)
		return false
	}
	return true
}

func isSubsequence(sub, seq []int) bool {
	i := 0
	for _, x := range seq {
		if i < len(sub) && sub[i] == x {
			i++
		}
	}
	return i == len(sub)
}

// critOps names the operators and tags of a criteria ("ne:a" or "eq:b+ge:a").
func critOps(c map[string]any) string {
	one := func(l map[string]any) string { return vlib.Str(l, "op") + ":" + vlib.Str(l, "tag") }
	if vlib.Str(c, "conn") == "one" {
		return one(vlib.Map(c, "c1"))
	}
	return one(vlib.Map(c, "c1")) + "-" + vlib.Str(c, "conn") + "-" + one(vlib.Map(c, "c2"))
}

func (m *streamWorld) idsOf(es []*streamv1.Element) []int {
	var out []int
	for _, e := range es {
		out = append(out, int(streamFindTag(e, "rid").GetInt().GetValue()))
	}
	return out
}

func groupIDs(groups []any) []int {
	var out []int
	for _, g := range groups {
		for _, r := range g.([]any) {
			out = append(out, vlib.Int(vlib.Rec(r), "id"))
		}
	}
	sort.Ints(out)
	return out
}

// layout describes the spec's part structure with the queried tags of every element (for violation reports).
func (m *streamWorld) layout(st vlib.State) string {
	acked := ackedMap(st)
	var parts []string
	for _, pv := range vlib.List(st, "parts") {
		p := vlib.Rec(pv)
		kind := "file"
		if vlib.Bool(p, "mem") {
			kind = "mem"
		}
		ids := vlib.Ints(vlib.List(p, "rows"))
		sort.Ints(ids)
		var rows []string
		for _, id := range ids {
			a, b, arr := m.rowTags(id)
			rows = append(rows, fmt.Sprintf("%d(s%d t%d a=%d b=%s arr=%v)", id, vlib.Int(acked[id], "s"), vlib.Int(acked[id], "t"), a, b, arr))
		}
		parts = append(parts, fmt.Sprintf("%s#%d{%s}", kind, vlib.Int(p, "pid"), strings.Join(rows, " ")))
	}
	sort.Strings(parts)
	return strings.Join(parts, " ")
}

// checkWindow verifies an ordered query with offset/limit: the elements are elements of the full result, none twice,
// and the sequence of their sort keys is exactly the window of the sorted sort keys (ties in any order).
func (m *streamWorld) checkWindow(es []*streamv1.Element, q, ev map[string]any, st vlib.State, by string, key func(*streamv1.Element) int, want []int,
	desc string, fail func(string, string, ...any),
) bool {
	tag := ":" + by + ":" + map[bool]string{true: "asc", false: "desc"}[vlib.Bool(q, "asc")]
	m.res.Inc("window_queries_by_" + by)
	if sig, msg := m.matchGroups(es, vlib.List(ev, "groups"), vlib.List(ev, "groups"), ackedMap(st)); sig != "" {
		fail(sig+"-in-ordered-query"+tag, "%s; query %s", msg, desc)
		return false
	}
	var got []int
	for _, e := range es {
		got = append(got, key(e))
	}
	if fmt.Sprint(got) != fmt.Sprint(want) {
		kind := "window-differs"
		sorted := sort.SliceIsSorted(got, func(i, j int) bool {
			if vlib.Bool(q, "asc") {
				return got[i] < got[j]
			}
			return got[i] > got[j]
		})
		c1 := vlib.Map(vlib.Map(q, "crit"), "c1")
		c2 := vlib.Map(vlib.Map(q, "crit"), "c2")
		// is a condition of this query evaluated after the scan?  (no index rule / a skipping rule: every condition;
		// inverted rules on a and b: conditions on the array tag, which no rule serves)
		postScan := false
		for _, cc := range []map[string]any{c1, c2} {
			if vlib.Str(cc, "op") != "true" && (m.cfg.Index != "inverted" || vlib.Str(cc, "tag") == "arr") {
				postScan = true
			}
		}
		switch {
		case !sorted:
			kind = "result-not-sorted"
		case by == "time" && postScan && vlib.Int(q, "limit") > 0 && len(got) <= len(want):
			// sorted, admissible rows, but not the window: fewer rows than the window holds although more qualify, or
			// (when a later group of parts refills the page) a window that skips qualifying rows.  The engine cuts the
			// time-ordered scan of a group of parts at offset+limit BEFORE the post-scan tag filter rejects rows.
			kind = "limit-underfilled-by-post-scan-filter:" + m.cfg.Index
		case len(got) != len(want):
			kind = "window-size-differs"
		}
		fail(kind+tag, "ordered by %s %s offset=%d limit=%d: sort keys returned %v, expected window %v; query %s", by, tag[len(by)+2:], vlib.Int(q, "offset"), vlib.Int(q, "limit"), got, want, desc)
		return false
	}
	return true
}

// checkIndexOrder (stream only, beyond the spec's time order): the same query ordered by the index rule on tag a and
// on tag b (the engine accepts index_rule_name ordering for inverted and for skipping rules alike).  The expected window is computed here from the spec's full result: the
// sort keys of the selected elements sorted, then offset/limit applied.
func (m *streamWorld) checkIndexOrder(ctx context.Context, st vlib.State, ev, q map[string]any, desc string, fail func(string, string, ...any)) bool {
	if _, indexed := m.indexType(); !indexed {
		return true
	}
	asc := vlib.Bool(q, "asc")
	for _, tagName := range []string{"a", "b"} {
		keyOf := func(id int) int { return vlib.Int(m.cfg.RowTags[fmt.Sprint(id)], tagName) }
		var keys []int
		for _, g := range vlib.List(ev, "groups") {
			keys = append(keys, keyOf(vlib.Int(vlib.Rec(g.([]any)[0]), "id")))
		}
		sort.Slice(keys, func(i, j int) bool {
			if asc {
				return keys[i] < keys[j]
			}
			return keys[i] > keys[j]
		})
		off, lim := vlib.Int(q, "offset"), vlib.Int(q, "limit")
		hi := len(keys)
		if lim > 0 && off+lim < hi {
			hi = off + lim
		}
		want := []int{}
		if off < len(keys) {
			want = keys[off:hi]
		}
		req := m.queryReq(st, q)
		req.OrderBy = &modelv1.QueryOrder{IndexRuleName: m.ruleName(tagName), Sort: modelv1.Sort_SORT_ASC}
		if !asc {
			req.OrderBy.Sort = modelv1.Sort_SORT_DESC
		}
		req.Offset = uint32(off)
		if lim > 0 {
			req.Limit = uint32(lim)
		}
		resp, err := m.query(ctx, req)
		m.res.Inc("criteria_queries")
		if err != nil {
			fail("query-rejected:order-by-index:"+tagName, "query %s ordered by idx-%s failed: %v", desc, tagName, err)
			return false
		}
		key := func(e *streamv1.Element) int {
			return keyOf(int(streamFindTag(e, "rid").GetInt().GetValue()))
		}
		failD := fail
		if os.Getenv("VERIF_IDX_DIAG") != "" {
			// diagnosis: does the same query heal when asked again a little later?  and does an index-served condition find the rows?
			failD = func(sig, format string, a ...any) {
				healed := -1
				for n, d := range []time.Duration{100 * time.Millisecond, 500 * time.Millisecond, 2 * time.Second} {
					time.Sleep(d)
					r2, e2 := m.query(ctx, req)
					if e2 != nil {
						continue
					}
					var got []int
					for _, e := range r2.Elements {
						got = append(got, key(e))
					}
					if fmt.Sprint(got) == fmt.Sprint(want) {
						healed = n
						break
					}
				}
				creq := m.coverReq()
				creq.Criteria = &modelv1.Criteria{Exp: &modelv1.Criteria_Condition{Condition: &modelv1.Condition{Name: tagName, Op: modelv1.Condition_BINARY_OP_GE, Value: map[string]*modelv1.TagValue{"a": tagInt(0), "b": tagStr("b00")}[tagName]}}}
				cr, ce := m.query(ctx, creq)
				n := -1
				if ce == nil {
					n = len(cr.Elements)
				}
				fail(sig, format+fmt.Sprintf(" [diag: healed at retry %d; index-served condition %s >= min finds %d elements, err %v]", healed, tagName, n, ce), a...)
			}
		}
		if !m.checkWindow(resp.Elements, q, ev, st, "idx-"+tagName, key, want, desc, failD) {
			return false
		}
	}
	return true
}
