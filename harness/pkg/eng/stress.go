package main

import (
	"context"
	"encoding/json"
	"fmt"
	"os"
	"path/filepath"
	"sync"
	"sync/atomic"
	"time"

	"google.golang.org/protobuf/types/known/timestamppb"

	modelv1 "github.com/apache/skywalking-banyandb/api/proto/banyandb/model/v1"
	"github.com/apache/skywalking-banyandb/banyand/measure"
	"github.com/apache/skywalking-banyandb/banyand/verifharness/vlib"
)

// Concurrent driver (code -> spec): real introducer / flusher / merger loops with a tiny flush timeout, several
// writer and query clients over gRPC.  Produces two traces:
//   lifecycle  (hooks in banyand/measure)  -> spec/TSTableTrace.tla
//   visibility (client side)               -> spec/VisibilityTrace.tla

type visLog struct {
	enc *json.Encoder
	mu  sync.Mutex
	n   int
}

func (v *visLog) emit(ev map[string]any) {
	v.mu.Lock()
	defer v.mu.Unlock()
	v.n++
	ev["seq"] = v.n
	_ = v.enc.Encode(ev)
}

type stressCfg struct {
	Engine     string `json:"engine"` // measure (default) | stream
	RowPath    bool   `json:"rowPath"` // stream: run the queries on the row pipeline (--stream-vectorized-enabled=false)
	Lifecycle  string `json:"lifecycle"`
	Visibility string `json:"visibility"`
	Millis     int    `json:"millis"`
	Writers    int    `json:"writers"`
	Readers    int    `json:"readers"`
	BatchRows  int    `json:"batchRows"`
	Snapshots  bool   `json:"snapshots"`
}

func runStress(cfgJSON string, res *vlib.Result) {
	var sc stressCfg
	if err := json.Unmarshal([]byte(cfgJSON), &sc); err != nil {
		res.Inconclusive = append(res.Inconclusive, "bad cfg: "+err.Error())
		return
	}
	if sc.Engine == "stream" {
		runStreamStress(sc, res)
		return
	}
	measure.VerifSetManual(false)
	measure.VerifSetChaos(true)
	srv, err := startServer([]string{"--measure-flush-timeout=40ms", "--logging-level=error"})
	if err != nil {
		res.Inconclusive = append(res.Inconclusive, "server: "+err.Error())
		return
	}
	ctx := context.Background()
	m := newMeasureWorld(srv, config{Versioned: true, RowTags: map[string]map[string]any{}}, fmt.Sprintf("vfs%d", os.Getpid()), res)
	if err = m.setup(ctx); err != nil {
		res.Inconclusive = append(res.Inconclusive, "setup: "+err.Error())
		return
	}
	vf, err := os.Create(sc.Visibility)
	if err != nil {
		res.Inconclusive = append(res.Inconclusive, err.Error())
		return
	}
	defer vf.Close()
	vis := &visLog{enc: json.NewEncoder(vf)}
	if err = measure.VerifStartTrace(sc.Lifecycle); err != nil {
		res.Inconclusive = append(res.Inconclusive, err.Error())
		return
	}
	var batchSeq, snaps atomic.Int64
	var stop atomic.Bool
	var wg sync.WaitGroup
	var failed atomic.Pointer[string]
	fail := func(s string) { failed.CompareAndSwap(nil, &s) }
	for w := 0; w < sc.Writers; w++ {
		wg.Add(1)
		go func(w int) {
			defer wg.Done()
			mw := *m // own message counter and own per-row maps (maps must not be shared between writer goroutines)
			mw.seriesOf, mw.tOf = map[int]int{}, map[int]int{}
			mw.msgID = uint64(w+1) << 32
			for !stop.Load() {
				b := int(batchSeq.Add(1))
				var rows []map[string]any
				for i := 0; i < sc.BatchRows; i++ {
					// distinct (series, ts) for every row: no version resolution involved
					rows = append(rows, map[string]any{"id": float64(b*100 + i), "s": float64(10 + w), "t": float64(0), "v": float64(1), "sec": float64(b*8 + i)})
				}
				vis.emit(map[string]any{"event": "WriteBegin", "batch": b, "rows": sc.BatchRows})
				if werr := mw.writeStress(ctx, rows); werr != nil {
					fail("write: " + werr.Error())
					return
				}
				vis.emit(map[string]any{"event": "WriteAck", "batch": b})
				time.Sleep(4 * time.Millisecond) // pacing: keeps the number of batches (and the size of every query answer) bounded
			}
		}(w)
	}
	for r := 0; r < sc.Readers; r++ {
		wg.Add(1)
		go func(r int) {
			defer wg.Done()
			q := 0
			for !stop.Load() {
				q++
				qid := r*1000000 + q
				vis.emit(map[string]any{"event": "QueryBegin", "q": qid})
				req := m.coverReq()
				req.TimeRange = &modelv1.TimeRange{Begin: timestamppb.New(m.base.Add(-time.Hour)), End: timestamppb.New(m.base.Add(20 * time.Hour))}
				req.Limit = 1000000
				resp, qerr := m.query(ctx, req)
				if qerr != nil {
					vis.emit(map[string]any{"event": "QueryFailed", "q": qid, "err": qerr.Error()})
					fail("query failed while maintenance runs: " + qerr.Error())
					return
				}
				counts := map[int]int{}
				for _, dp := range resp.DataPoints {
					rid := int(findTag(dp, "rid").GetInt().GetValue())
					counts[rid/100]++
				}
				seen := make([][2]int, 0, len(counts))
				for b, n := range counts {
					seen = append(seen, [2]int{b, n})
				}
				vis.emit(map[string]any{"event": "QueryEnd", "q": qid, "seen": seen})
				time.Sleep(2 * time.Millisecond)
			}
		}(r)
	}
	if sc.Snapshots {
		wg.Add(1)
		go func() {
			defer wg.Done()
			dir, _ := os.MkdirTemp("", "verif-snap")
			defer os.RemoveAll(dir)
			n := 0
			for !stop.Load() {
				time.Sleep(15 * time.Millisecond)
				for _, root := range measure.VerifTableRoots("/" + m.group + "/") {
					n++
					dst := filepath.Join(dir, fmt.Sprintf("s%d", n))
					if serr := measure.VerifTakeFileSnapshot(root, dst); serr != nil {
						fail("file snapshot: " + serr.Error())
						return
					}
					snaps.Add(1)
					_ = os.RemoveAll(dst)
				}
			}
		}()
	}
	time.Sleep(time.Duration(sc.Millis) * time.Millisecond)
	stop.Store(true)
	wg.Wait()
	// let the loops settle (flush of the tail, merges), then drop the group: table close is part of the trace
	time.Sleep(300 * time.Millisecond)
	m.teardown(ctx)
	time.Sleep(300 * time.Millisecond)
	res.Stats["lifecycle_events"] = measure.VerifStopTrace()
	res.Stats["visibility_events"] = vis.n
	res.Stats["batches"] = int(batchSeq.Load())
	res.Stats["file_snapshots"] = int(snaps.Load())
	res.Behaviours = 1
	res.Steps = res.Stats["lifecycle_events"] + vis.n
	if f := failed.Load(); f != nil {
		res.Violate(0, 0, "operation-failed-under-concurrency", "%s", *f)
	}
}

// writeStress sends all rows as ONE write stream (one batch); rows carry their own second offsets.
func (m *measureWorld) writeStress(ctx context.Context, rows []map[string]any) error {
	return m.write(ctx, rows)
}
