// Package vlib is the shared part of the conformance harnesses: reading TLC behaviours
// (ndjson written by tools/vf), accessors for TLA+ values decoded as JSON, and the result file.
package vlib

import (
	"bufio"
	"encoding/json"
	"fmt"
	"os"
	"sort"
	"strconv"
)

// State is one TLA+ state: variable name -> value.
type State = map[string]any

// Behaviour is a sequence of states starting with an initial state.
type Behaviour struct {
	States []State `json:"states"`
	ID     int     `json:"id"`
}

// Violation is a mismatch between the real code and the specification.
type Violation struct {
	Signature string `json:"signature"`
	Detail    string `json:"detail"`
	Behaviour int    `json:"behaviour"`
	Step      int    `json:"step"`
}

// Result is what a harness reports.
type Result struct {
	Stats        map[string]int `json:"stats"`
	Violations   []Violation    `json:"violations"`
	Inconclusive []string       `json:"inconclusive"`
	Samples      []any          `json:"samples"`
	Behaviours   int            `json:"behaviours"`
	Steps        int            `json:"steps"`
}

// NewResult creates an empty result.
func NewResult() *Result { return &Result{Stats: map[string]int{}} }

// Violate records a violation (at most 50 are kept).
func (r *Result) Violate(b, step int, sig, format string, a ...any) {
	if len(r.Violations) < 50 {
		r.Violations = append(r.Violations, Violation{Behaviour: b, Step: step, Signature: sig, Detail: fmt.Sprintf(format, a...)})
	}
	r.Stats["violations_total"]++
}

// Progress records the behaviour about to be replayed (file named by VERIF_PROGRESS): if the real code makes the
// process die, the check re-runs exactly that behaviour alone.
func Progress(id int) {
	if p := os.Getenv("VERIF_PROGRESS"); p != "" {
		_ = os.WriteFile(p, []byte(strconv.Itoa(id)), 0o644)
	}
}

// Inc increments a counter.
func (r *Result) Inc(k string) { r.Stats[k]++ }

// Write stores the result.
func (r *Result) Write(path string) {
	data, _ := json.MarshalIndent(r, "", " ")
	if err := os.WriteFile(path, data, 0o644); err != nil {
		fmt.Fprintln(os.Stderr, "cannot write result:", err)
		os.Exit(3)
	}
}

// ReadBehaviours loads an ndjson behaviour file.
func ReadBehaviours(path string) ([]Behaviour, error) {
	f, err := os.Open(path)
	if err != nil {
		return nil, err
	}
	defer f.Close()
	var out []Behaviour
	sc := bufio.NewScanner(f)
	sc.Buffer(make([]byte, 1<<20), 1<<28)
	for sc.Scan() {
		if len(sc.Bytes()) == 0 {
			continue
		}
		var b Behaviour
		if err := json.Unmarshal(sc.Bytes(), &b); err != nil {
			return nil, err
		}
		out = append(out, b)
	}
	return out, sc.Err()
}

// ReadLines loads an ndjson file of arbitrary objects.
func ReadLines(path string) ([]map[string]any, error) {
	f, err := os.Open(path)
	if err != nil {
		return nil, err
	}
	defer f.Close()
	var out []map[string]any
	sc := bufio.NewScanner(f)
	sc.Buffer(make([]byte, 1<<20), 1<<28)
	for sc.Scan() {
		if len(sc.Bytes()) == 0 {
			continue
		}
		var m map[string]any
		if err := json.Unmarshal(sc.Bytes(), &m); err != nil {
			return nil, err
		}
		out = append(out, m)
	}
	return out, sc.Err()
}

// Int reads an integer field.
func Int(m map[string]any, k string) int {
	switch v := m[k].(type) {
	case float64:
		return int(v)
	case int:
		return v
	case string:
		n, _ := strconv.Atoi(v)
		return n
	}
	return 0
}

// Str reads a string field.
func Str(m map[string]any, k string) string {
	switch v := m[k].(type) {
	case string:
		return v
	case float64:
		return strconv.Itoa(int(v))
	}
	return ""
}

// Bool reads a boolean field.
func Bool(m map[string]any, k string) bool {
	b, _ := m[k].(bool)
	return b
}

// List reads a list field (TLA+ set or sequence).
func List(m map[string]any, k string) []any {
	l, _ := m[k].([]any)
	return l
}

// Map reads a record/function field.
func Map(m map[string]any, k string) map[string]any {
	r, _ := m[k].(map[string]any)
	return r
}

// Rec converts a value to a record.
func Rec(v any) map[string]any {
	r, _ := v.(map[string]any)
	return r
}

// AsInt converts a JSON number.
func AsInt(v any) int {
	switch x := v.(type) {
	case float64:
		return int(x)
	case int:
		return x
	}
	return 0
}

// Ints converts a list of numbers.
func Ints(l []any) []int {
	out := make([]int, 0, len(l))
	for _, v := range l {
		out = append(out, AsInt(v))
	}
	return out
}

// Strs converts a list of strings.
func Strs(l []any) []string {
	out := make([]string, 0, len(l))
	for _, v := range l {
		s, _ := v.(string)
		out = append(out, s)
	}
	return out
}

// Canon renders a value canonically (maps sorted by key) for comparison and messages.
func Canon(v any) string {
	data, _ := json.Marshal(canon(v))
	return string(data)
}

func canon(v any) any {
	switch x := v.(type) {
	case map[string]any:
		keys := make([]string, 0, len(x))
		for k := range x {
			keys = append(keys, k)
		}
		sort.Strings(keys)
		out := make([]any, 0, len(keys))
		for _, k := range keys {
			out = append(out, []any{k, canon(x[k])})
		}
		return out
	case []any:
		out := make([]any, len(x))
		for i := range x {
			out[i] = canon(x[i])
		}
		return out
	}
	return v
}

// SortedStrings returns a sorted copy.
func SortedStrings(s []string) []string {
	out := append([]string(nil), s...)
	sort.Strings(out)
	return out
}

// Seed returns VERIF_SEED (default 1).
func Seed() int64 {
	n, err := strconv.ParseInt(os.Getenv("VERIF_SEED"), 10, 64)
	if err != nil {
		return 1
	}
	return n
}
