// Command c04 binds spec/CrashFS.tla + spec/TSTableCrash.tla (property C04: a crash at any point recovers
// to a consistent durable prefix) to the real banyand/measure tsTable and pkg/fs.
//
// One run of a write/flush/merge history on a bare tsTable (real introducer loop; real flush and merge
// stepped by the harness) with the pkg/fs tracer on yields
//   - the syscall log (every mutating file-system operation, in a total order, logged BEFORE it executes),
//   - for every index k of that log the exact directory tree at that instant (kill -9 image k) and a mirror
//     of CrashFS (durable name space, pending un-synced effects, dirty inodes),
//   - the spec-level trace (ndjson) that spec/TSTableCrashTrace.tla validates, and the harness' own
//     per-event expectations (acked, durable cover, pending effects, dirty inodes) that the check compares
//     with the oracle emitted by that TLC run (the spec decides what is admissible).
// Fault enumeration: for EVERY k the kill -9 image, the in-flight variants (half-done write, part-way
// RemoveAll) and the power-loss images (all/each single/each only/all subsets of the un-synced effects
// lost, un-synced data lost or torn) are materialised in fresh directories; the REAL initTSTable runs on
// each, all rows are read back through the engine's block readers and compared with the admissible set.
package main

import (
	"crypto/sha1"
	"encoding/hex"
	"encoding/json"
	"flag"
	"fmt"
	"os"
	"path/filepath"
	"regexp"
	"sort"
	"strconv"
	"strings"
	"sync"
	"time"

	"github.com/apache/skywalking-banyandb/banyand/measure"
	"github.com/apache/skywalking-banyandb/banyand/stream"
	"github.com/apache/skywalking-banyandb/banyand/verifharness/vlib"
	"github.com/apache/skywalking-banyandb/pkg/fs"
	"github.com/apache/skywalking-banyandb/pkg/logger"
)

// ---------- mirror of CrashFS ----------

type inode struct {
	created string // relative path it was created under (identity in the spec)
	data    []byte // latest content seen on disk
	id      int
	synced  int // bytes covered by the last fsync
	dir     bool
	dirty   bool // written since the last fsync
}

type effect struct {
	ino  *inode
	op   string // add | del | ren | rmall
	dir  string // directory whose fsync makes it durable ("" = table root)
	path string
	to   string
}

type nsmap map[string]*inode

func (n nsmap) clone() nsmap {
	o := make(nsmap, len(n))
	for k, v := range n {
		o[k] = v
	}
	return o
}

func applyEff(ns nsmap, e effect) {
	switch e.op {
	case "add":
		ns[e.path] = e.ino
	case "del":
		delete(ns, e.path)
	case "ren":
		delete(ns, e.path)
		ns[e.to] = e.ino
	case "rmall":
		delete(ns, e.path)
		for p := range ns {
			if strings.HasPrefix(p, e.path+"/") {
				delete(ns, p)
			}
		}
	}
}

func reach(ns nsmap) nsmap {
	o := make(nsmap, len(ns))
	for p, i := range ns {
		if d := parentOf(p); d != "" {
			if di, ok := ns[d]; !ok || !di.dir {
				continue
			}
		}
		o[p] = i
	}
	return o
}

func parentOf(p string) string {
	if i := strings.LastIndex(p, "/"); i >= 0 {
		return p[:i]
	}
	return ""
}

// point is the state at one index of the syscall log: operations [0,k) have completed.
type point struct {
	vol    nsmap
	dur    nsmap
	data   map[int][]byte
	synced map[int]int
	dirty  map[int]bool
	cover  map[int]bool
	macro  string
	pend   []effect
	acked  int
}

type sysEvent struct {
	Op   string `json:"op"`
	Path string `json:"path"`
	To   string `json:"to,omitempty"`
	N    int    `json:"n"`
	Seq  int    `json:"seq"`
}

type recorder struct {
	vol        nsmap
	dur        nsmap
	partBatch  map[uint64][]int
	flushed    map[uint64]bool
	cover      map[int]bool
	root       string
	macro      string
	pendingPub string
	pend       []effect
	log        []sysEvent
	points     []point
	trace      []map[string]any
	expect     []map[string]any
	hook       func(ev sysEvent)
	removing   map[string]bool
	mismatch   string
	mu         sync.Mutex
	nextIno    int
	acked      int
}

func newRecorder(root string) *recorder {
	return &recorder{root: root, removing: map[string]bool{}, vol: nsmap{}, dur: nsmap{}, partBatch: map[uint64][]int{}, flushed: map[uint64]bool{}, cover: map[int]bool{}}
}

func (r *recorder) rel(p string) string {
	if p == r.root {
		return ""
	}
	return strings.TrimPrefix(p, r.root+"/")
}

func (r *recorder) refresh() {
	for p, i := range r.vol {
		if i.dir {
			continue
		}
		b, err := os.ReadFile(filepath.Join(r.root, p))
		if err == nil && (len(b) != len(i.data) || string(b) != string(i.data)) {
			i.data = b
		}
	}
}

func (r *recorder) snapshot() point {
	pt := point{vol: r.vol.clone(), dur: r.dur.clone(), data: map[int][]byte{}, synced: map[int]int{}, dirty: map[int]bool{},
		cover: map[int]bool{}, macro: r.macro, pend: append([]effect(nil), r.pend...), acked: r.acked}
	seen := func(i *inode) {
		pt.data[i.id] = i.data
		pt.synced[i.id] = i.synced
		if i.dirty {
			pt.dirty[i.id] = true
		}
	}
	for _, i := range r.vol {
		seen(i)
	}
	for _, i := range r.dur {
		seen(i)
	}
	for _, e := range r.pend {
		seen(e.ino)
	}
	for b := range r.cover {
		pt.cover[b] = true
	}
	return pt
}

// onSys is the pkg/fs tracer: called before operation ev executes, serialised.
func (r *recorder) onSys(fe fs.VerifSysEvent) {
	r.mu.Lock()
	defer r.mu.Unlock()
	ev := sysEvent{Op: fe.Op, N: fe.N, Seq: len(r.log)}
	if i := strings.IndexByte(fe.Path, 0); i >= 0 {
		ev.Path, ev.To = r.rel(fe.Path[:i]), r.rel(fe.Path[i+1:])
	} else {
		ev.Path = r.rel(fe.Path)
	}
	r.refresh()
	r.compareTree()
	r.points = append(r.points, r.snapshot())
	r.log = append(r.log, ev)
	r.apply(ev)
	if r.hook != nil {
		h := r.hook
		r.mu.Unlock()
		h(ev)
		r.mu.Lock()
	}
}

// compareTree checks that the mirror's volatile name space IS the directory tree on disk at this instant
// (so that the kill -9 images are real); directories whose RemoveAll has been issued may still be vanishing.
func (r *recorder) compareTree() {
	if r.mismatch != "" {
		return
	}
	// an operation is logged before it executes: the latest operations of OTHER goroutines (gc.clean's unlink, the
	// asynchronous part removal) may not have reached the disk yet, so paths they touch are not compared
	recent := map[string]bool{}
	for i := len(r.log) - 1; i >= 0 && i >= len(r.log)-4; i-- {
		recent[r.log[i].Path] = true
		if r.log[i].To != "" {
			recent[r.log[i].To] = true
		}
	}
	for d := range r.removing {
		recent[d] = true
	}
	skip := func(p string) bool {
		for d := range recent {
			if p == d || strings.HasPrefix(p, d+"/") {
				return true
			}
		}
		return false
	}
	disk := map[string]bool{}
	for _, p := range measure.VerifListTree(r.root) {
		p = strings.TrimSuffix(p, "/")
		if !skip(p) {
			disk[p] = true
		}
	}
	for p := range r.vol {
		if !disk[p] && !skip(p) {
			r.mismatch = fmt.Sprintf("before syscall %d: %s is in the mirror but not on disk", len(r.log), p)
			return
		}
	}
	for p := range disk {
		if _, ok := r.vol[p]; !ok {
			r.mismatch = fmt.Sprintf("before syscall %d: %s is on disk but not in the mirror", len(r.log), p)
			return
		}
	}
}

func (r *recorder) newIno(path string, dir bool) *inode {
	r.nextIno++
	return &inode{id: r.nextIno, created: path, dir: dir}
}

// apply mirrors the effect of the operation on the CrashFS state (the operation itself runs right after).
func (r *recorder) apply(ev sysEvent) {
	r.applyOp(ev)
	r.emit(ev)
}

func (r *recorder) applyOp(ev sysEvent) {
	p := ev.Path
	switch ev.Op {
	case "mkdir":
		if _, ok := r.vol[p]; ok {
			return
		}
		e := effect{op: "add", dir: parentOf(p), path: p, to: p, ino: r.newIno(p, true)}
		applyEff(r.vol, e)
		r.pend = append(r.pend, e)
	case "create":
		e := effect{op: "add", dir: parentOf(p), path: p, to: p, ino: r.newIno(p, false)}
		applyEff(r.vol, e)
		r.pend = append(r.pend, e)
	case "write", "bufwrite", "bufflush":
		if i, ok := r.vol[p]; ok && (ev.Op != "bufwrite") {
			i.dirty = true
		}
	case "fsync":
		if i, ok := r.vol[p]; ok {
			i.synced = len(i.data)
			i.dirty = false
		}
	case "rename":
		i, ok := r.vol[p]
		if !ok {
			return
		}
		e := effect{op: "ren", dir: parentOf(p), path: p, to: ev.To, ino: i}
		applyEff(r.vol, e)
		r.pend = append(r.pend, e)
		if strings.HasSuffix(ev.To, ".snp") && parentOf(ev.To) == "" {
			r.pendingPub = ev.To
		}
	case "syncdir":
		var rest []effect
		for _, e := range r.pend {
			if e.dir == p {
				applyEff(r.dur, e)
			} else {
				rest = append(rest, e)
			}
		}
		r.pend = rest
		if p != "" {
			if _, ok := r.vol[p+"/metadata.json"]; ok {
				if id, err := strconv.ParseUint(p, 16, 64); err == nil {
					r.flushed[id] = true
				}
			}
		} else if r.pendingPub != "" { // WriteAtomic(manifest) has returned: durably published
			if i, ok := r.vol[r.pendingPub]; ok {
				var names []string
				_ = json.Unmarshal(i.data, &names)
				r.cover = map[int]bool{}
				for _, n := range names {
					id, _ := strconv.ParseUint(n, 16, 64)
					if r.flushed[id] {
						for _, b := range r.partBatch[id] {
							r.cover[b] = true
						}
					}
				}
			}
			r.pendingPub = ""
		}
	case "unlink":
		i, ok := r.vol[p]
		if !ok {
			return
		}
		e := effect{op: "del", dir: parentOf(p), path: p, to: p, ino: i}
		applyEff(r.vol, e)
		r.pend = append(r.pend, e)
	case "rmall":
		i, ok := r.vol[p]
		if !ok {
			return
		}
		r.removing[p] = true
		e := effect{op: "rmall", dir: parentOf(p), path: p, to: p, ino: i}
		applyEff(r.vol, e)
		r.pend = append(r.pend, e)
	}
}

// ---------- mapping to the spec's vocabulary ----------

var (
	partDirRe = regexp.MustCompile(`^[0-9a-f]{16}$`)
	snpRe     = regexp.MustCompile(`^([0-9a-f]{16})\.snp(\.tmp)?$`)
)

func nmOf(p string) map[string]any {
	mk := func(d uint64, k string, e uint64, f string, t bool) map[string]any {
		return map[string]any{"d": d, "k": k, "e": e, "f": f, "t": t}
	}
	if p == "" {
		return mk(0, "root", 0, "", false)
	}
	dir, base := parentOf(p), filepath.Base(p)
	if dir == "" {
		if partDirRe.MatchString(base) {
			id, _ := strconv.ParseUint(base, 16, 64)
			return mk(0, "dir", id, "", false)
		}
		if m := snpRe.FindStringSubmatch(base); m != nil {
			e, _ := strconv.ParseUint(m[1], 16, 64)
			return mk(0, "snp", e, "", m[2] != "")
		}
		return mk(0, "other", 0, base, strings.HasSuffix(base, ".tmp"))
	}
	id, _ := strconv.ParseUint(dir, 16, 64)
	tmp := strings.HasSuffix(base, ".tmp")
	b := strings.TrimSuffix(base, ".tmp")
	switch b {
	case "metadata.json":
		return mk(id, "meta", 0, "", tmp)
	case "tag.type":
		return mk(id, "tt", 0, "", tmp)
	}
	return mk(id, "data", 0, b, tmp)
}

func kindOf(p string) string {
	n := nmOf(p)
	k := n["k"].(string)
	switch k {
	case "root":
		return "root"
	case "dir":
		return "part-dir"
	case "snp":
		k = "manifest"
	case "meta":
		k = "metadata-json"
	case "tt":
		k = "tag-type"
	case "data":
		k = "data-file"
	}
	if n["t"].(bool) {
		k += "-tmp"
	}
	return k
}

var specOps = map[string]string{"mkdir": "mkdir", "create": "create", "write": "write", "bufflush": "write", "fsync": "fsync",
	"rename": "rename", "syncdir": "syncdir", "unlink": "unlink", "rmall": "rmall", "link": "link"}

func (r *recorder) state() map[string]any {
	cov := []int{}
	for b := range r.cover {
		cov = append(cov, b)
	}
	sort.Ints(cov)
	pend := []any{}
	for _, e := range r.pend {
		pend = append(pend, map[string]any{"op": e.op, "nm": nmOf(e.path), "to": nmOf(e.to)})
	}
	var dirty []string
	seen := map[int]bool{}
	for _, i := range r.vol {
		if i.dirty && !seen[i.id] {
			seen[i.id] = true
			dirty = append(dirty, i.created)
		}
	}
	sort.Strings(dirty)
	dn := []any{}
	for _, d := range dirty {
		dn = append(dn, nmOf(d))
	}
	return map[string]any{"acked": r.acked, "cover": cov, "pend": pend, "dirty": dn}
}

func (r *recorder) emit(ev sysEvent) {
	op, ok := specOps[ev.Op]
	if !ok {
		return
	}
	to := ev.Path
	if ev.To != "" {
		to = ev.To
	}
	r.trace = append(r.trace, map[string]any{"ev": "sys", "op": op, "nm": nmOf(ev.Path), "to": nmOf(to), "seq": ev.Seq, "part": 0, "out": 0, "parts": []uint64{}})
	st := r.state()
	st["seq"] = ev.Seq
	r.expect = append(r.expect, st)
}

func (r *recorder) marker(ev string, part, out uint64, parts []uint64) {
	r.mu.Lock()
	defer r.mu.Unlock()
	if parts == nil {
		parts = []uint64{}
	}
	seq := len(r.log) - 1
	r.trace = append(r.trace, map[string]any{"ev": ev, "op": ev, "nm": nmOf(""), "to": nmOf(""), "seq": seq, "part": part, "out": out, "parts": parts})
	st := r.state()
	st["seq"] = seq
	r.expect = append(r.expect, st)
}

// ---------- running a history on the real table ----------

type shape struct {
	Series int   `json:"series"`
	Rows   int   `json:"rows"`
	Salt   int64 `json:"salt"`
	Tagged bool  `json:"tagged"`
	Engine string `json:"engine"` // "" | "measure" | "stream"
}

// crashTable is the bare tsTable of either engine (the in-package export files have the same seven functions).
type crashTable interface {
	Write(b, nSeries, rowsPer int, tagged bool, salt int64) uint64
	Flush()
	Parts() (uint64, []uint64, []uint64)
	NextPartID() uint64
	Merge(ids []uint64) (uint64, error)
	Close()
}

type recovered struct {
	Rows  []string
	Parts []uint64
	Epoch uint64
}

func newCrashTable(root string, sh shape) (crashTable, func()) {
	if sh.Engine == "stream" {
		idx, _ := os.MkdirTemp("", "c04idx")
		return stream.VerifNewCrashTable(root, idx), func() { os.RemoveAll(idx) }
	}
	return measure.VerifNewCrashTable(root), func() {}
}

func batchRows(sh shape, b int) ([]string, error) {
	if sh.Engine == "stream" {
		return stream.VerifBatchRows(b, sh.Series, sh.Rows, sh.Tagged, sh.Salt)
	}
	return measure.VerifBatchRows(b, sh.Series, sh.Rows, sh.Tagged, sh.Salt)
}

func recoverDir(sh shape, dir string) *recovered {
	if sh.Engine == "stream" {
		r := stream.VerifRecover(dir)
		return &recovered{Rows: r.Rows, Parts: r.Parts, Epoch: r.Epoch}
	}
	r := measure.VerifRecover(dir)
	return &recovered{Rows: r.Rows, Parts: r.Parts, Epoch: r.Epoch}
}

type run struct {
	rec      *recorder
	batchRow map[int][]string
	hist     []string
	sh       shape
	problems []string
}

func waitFor(cond func() bool) bool {
	for i := 0; i < 5000; i++ {
		if cond() {
			return true
		}
		time.Sleep(time.Millisecond)
	}
	return false
}

func countSnp(root string) int {
	ee, _ := os.ReadDir(root)
	n := 0
	for _, e := range ee {
		if strings.HasSuffix(e.Name(), ".snp") {
			n++
		}
	}
	return n
}

// execute runs the history: W (write one batch), F (flush), M (merge all file parts), Fw / Mw (the same with
// one more batch written while the part files are being written; Fww / Mww: two more batches).
func execute(root string, hist []string, sh shape) (*run, error) {
	rn := &run{rec: newRecorder(root), batchRow: map[int][]string{}, hist: hist, sh: sh}
	rec := rn.rec
	t, dropIndex := newCrashTable(root, sh)
	defer dropIndex()
	fs.VerifInstallTracer(rec.onSys)
	defer fs.VerifInstallTracer(nil)
	batch := 0
	write := func() {
		batch++
		id := t.Write(batch, sh.Series, sh.Rows, sh.Tagged, sh.Salt)
		rec.mu.Lock()
		rec.partBatch[id] = []int{batch}
		rec.acked = batch
		rec.mu.Unlock()
		rec.marker("W", id, 0, nil)
	}
	inject := func(n int) { // n writes while the running flush/merge creates its data files (one per created file)
		left := n
		rec.hook = func(ev sysEvent) {
			if left > 0 && ev.Op == "create" && kindOf(ev.Path) == "data-file" {
				left--
				write()
			}
		}
	}
	for _, op := range hist {
		racing := len(op) - len(strings.TrimRight(op, "w"))
		op = strings.TrimRight(op, "w")
		if racing > 0 {
			op += "w"
		}
		rec.mu.Lock()
		rec.macro = op
		rec.mu.Unlock()
		switch op {
		case "W":
			write()
		case "F", "Fw":
			_, mem, _ := t.Parts()
			if len(mem) == 0 {
				return rn, fmt.Errorf("history %v: flush without mem part", hist)
			}
			rec.marker("F", 0, 0, mem)
			if op == "Fw" {
				inject(racing)
			}
			t.Flush()
			rec.hook = nil
			if !waitFor(func() bool { return countSnp(root) == 1 }) {
				rn.problems = append(rn.problems, "old manifest not removed within 5s after flush")
			}
		case "M", "Mw":
			_, _, file := t.Parts()
			if len(file) < 2 {
				return rn, fmt.Errorf("history %v: merge with %d file parts", hist, len(file))
			}
			out := t.NextPartID()
			var bb []int
			rec.mu.Lock()
			for _, id := range file {
				bb = append(bb, rec.partBatch[id]...)
			}
			rec.partBatch[out] = bb
			rec.mu.Unlock()
			rec.marker("M", 0, out, file)
			if op == "Mw" {
				inject(racing)
			}
			got, err := t.Merge(file)
			rec.hook = nil
			if err != nil || got != out {
				return rn, fmt.Errorf("merge: %v (out %d, expected %d)", err, got, out)
			}
			if !waitFor(func() bool {
				if countSnp(root) != 1 {
					return false
				}
				for _, id := range file {
					if _, err := os.Stat(filepath.Join(root, fmt.Sprintf("%016x", id))); err == nil {
						return false
					}
				}
				return true
			}) {
				rn.problems = append(rn.problems, "merged inputs / old manifest not removed within 5s")
			}
		default:
			return rn, fmt.Errorf("unknown op %q", op)
		}
	}
	rec.mu.Lock()
	rec.macro = "end"
	rec.refresh()
	rec.compareTree()
	if rec.mismatch != "" {
		rn.problems = append(rn.problems, "mirror of the file system diverged from the disk: "+rec.mismatch)
	}
	rec.points = append(rec.points, rec.snapshot()) // the final, quiescent point
	rec.mu.Unlock()
	fs.VerifInstallTracer(nil)
	t.Close()
	for b := 1; b <= batch; b++ {
		rows, err := batchRows(sh, b)
		if err != nil {
			return rn, err
		}
		rn.batchRow[b] = rows
	}
	return rn, nil
}

// ---------- crash images ----------

type image struct {
	files   map[string][]byte // relative path -> content
	dirs    map[string]bool
	variant string // stable class of the image construction
	detail  string
	ordered bool // also possible on a file system that persists the name-space operations of one directory in issue order
}

func (im *image) hash() string {
	var keys []string
	for d := range im.dirs {
		keys = append(keys, d+"/")
	}
	for f, b := range im.files {
		s := sha1.Sum(b)
		keys = append(keys, f+"="+hex.EncodeToString(s[:]))
	}
	sort.Strings(keys)
	s := sha1.Sum([]byte(strings.Join(keys, "\n")))
	return hex.EncodeToString(s[:])
}

// build turns a name space into an image; cut decides how much of a dirty inode's un-synced data survives.
func build(pt *point, ns nsmap, cut func(i *inode, data []byte, synced int, dirty bool) []byte) *image {
	im := &image{files: map[string][]byte{}, dirs: map[string]bool{}}
	for p, i := range reach(ns) {
		if i.dir {
			im.dirs[p] = true
			continue
		}
		data := pt.data[i.id]
		im.files[p] = cut(i, data, pt.synced[i.id], len(data) > pt.synced[i.id])
	}
	return im
}

func keepAll(_ *inode, data []byte, _ int, _ bool) []byte { return data }

func lost(_ *inode, data []byte, synced int, dirty bool) []byte {
	if dirty && synced < len(data) {
		return data[:synced]
	}
	return data
}

func torn(_ *inode, data []byte, synced int, dirty bool) []byte {
	if dirty && synced < len(data) {
		return data[:synced+(len(data)-synced)/2]
	}
	return data
}

func effClass(e effect) string { return e.op + "-" + kindOf(e.to) }

// partial RemoveAll of directory d in ns: cls = meta (metadata.json gone) | data (one data file gone) | most (only metadata.json left)
func partialRm(ns nsmap, d, cls string) nsmap {
	o := ns.clone()
	var data []string
	for p := range o {
		if parentOf(p) == d && kindOf(p) == "data-file" {
			data = append(data, p)
		}
	}
	sort.Strings(data)
	switch cls {
	case "meta":
		delete(o, d+"/metadata.json")
	case "data":
		if len(data) > 0 {
			delete(o, data[len(data)/2])
		}
	case "most":
		for p := range o {
			if parentOf(p) == d && p != d+"/metadata.json" {
				delete(o, p)
			}
		}
	}
	return o
}

func images(rn *run, k int, maxSubset int) []*image {
	pt := &rn.rec.points[k]
	var out []*image
	ordered := func(mask uint64) bool { // per directory, the surviving effects are a prefix of the issued ones
		gap := map[string]bool{}
		for i, e := range pt.pend {
			if mask&(1<<uint(i)) == 0 {
				gap[e.dir] = true
			} else if gap[e.dir] {
				return false
			}
		}
		return true
	}
	curMask := ^uint64(0)
	add := func(im *image, variant, detail string) {
		im.variant, im.detail = variant, detail
		im.ordered = curMask == ^uint64(0) || ordered(curMask)
		out = append(out, im)
	}
	add(build(pt, pt.vol, keepAll), "kill9", "")
	if k < len(rn.rec.log) {
		next := rn.rec.log[k]
		switch next.Op {
		case "write", "bufflush": // the write was part-way when the process died: the file holds half of what this operation adds
			if after := rn.rec.points[k+1].vol[next.Path]; after != nil {
				before := pt.data[after.id]
				full := rn.rec.points[k+1].data[after.id]
				if len(full) > len(before)+1 {
					im := build(pt, pt.vol, keepAll)
					im.files[next.Path] = full[:len(before)+(len(full)-len(before))/2]
					add(im, "kill9-inflight-write-half", next.Path)
				}
			}
		case "rmall":
			for _, cls := range []string{"meta", "data", "most"} {
				add(build(pt, partialRm(pt.vol, next.Path, cls), keepAll), "kill9-inflight-rmall-"+cls, next.Path)
			}
		}
	}
	// power loss
	n := len(pt.pend)
	subset := func(mask uint64) nsmap {
		curMask = mask
		ns := pt.dur.clone()
		for i, e := range pt.pend {
			if mask&(1<<uint(i)) != 0 {
				applyEff(ns, e)
			}
		}
		return ns
	}
	all := uint64(1)<<uint(n) - 1
	anyDirty := false
	for _, i := range pt.vol {
		if len(pt.data[i.id]) > pt.synced[i.id] {
			anyDirty = true
		}
	}
	add(build(pt, subset(0), lost), "powerloss-all-unsynced-lost", "")
	if n > 0 {
		add(build(pt, subset(all), keepAll), "powerloss-all-kept", "")
	}
	if anyDirty {
		add(build(pt, subset(all), lost), "powerloss-data-lost", "")
		add(build(pt, subset(all), torn), "powerloss-data-torn", "")
		if n > 0 {
			add(build(pt, subset(0), keepAll), "powerloss-names-lost-data-kept", "")
		}
	}
	for i, e := range pt.pend {
		add(build(pt, subset(all&^(1<<uint(i))), keepAll), "powerloss-single-lost:"+effClass(e), e.to)
		if n > 1 {
			add(build(pt, subset(1<<uint(i)), keepAll), "powerloss-single-kept:"+effClass(e), e.to)
		}
		if e.op == "rmall" { // a RemoveAll that did not persist as a whole may have persisted in part
			for _, cls := range []string{"meta", "data", "most"} {
				add(build(pt, partialRm(subset(all&^(1<<uint(i))), e.path, cls), keepAll), "powerloss-partial-rmall-"+cls, e.path)
			}
		}
	}
	if n > 2 && n <= maxSubset {
		for m := uint64(1); m < all; m++ {
			add(build(pt, subset(m), keepAll), "powerloss-subset", fmt.Sprintf("mask=%b of %d", m, n))
			if anyDirty {
				add(build(pt, subset(m), lost), "powerloss-subset-data-lost", fmt.Sprintf("mask=%b of %d", m, n))
			}
		}
	}
	return out
}

// ordered tells whether the image is also possible when the file system persists name-space operations
// of one directory in issue order (journal ordering): recorded for information only.

func materialise(im *image) (string, error) {
	dir, err := os.MkdirTemp("", "c04img")
	if err != nil {
		return "", err
	}
	var dd []string
	for d := range im.dirs {
		dd = append(dd, d)
	}
	sort.Strings(dd)
	for _, d := range dd {
		if err := os.MkdirAll(filepath.Join(dir, d), 0o755); err != nil {
			return dir, err
		}
	}
	for f, b := range im.files {
		if err := os.WriteFile(filepath.Join(dir, f), b, 0o600); err != nil {
			return dir, err
		}
	}
	return dir, nil
}

// ---------- evaluation ----------

type verdict struct {
	kind   string
	detail string
}

var tsRe = regexp.MustCompile(` ts=(\d+) `)

func classifyPanic(msg string) string {
	switch {
	case strings.Contains(msg, "cannot open"):
		return "missing-part-file"
	case strings.Contains(msg, "cannot read"):
		if strings.Contains(msg, "metadata.json") {
			return "missing-metadata-json"
		}
		return "unreadable-part-file"
	case strings.Contains(msg, "cannot parse"), strings.Contains(msg, "cannot unmarshal"), strings.Contains(msg, "cannot decompress"),
		strings.Contains(msg, "cannot decode"):
		return "torn-part-file"
	case strings.Contains(msg, "slice bounds"), strings.Contains(msg, "index out of range"), strings.Contains(msg, "unexpected"):
		return "torn-part-file"
	}
	return "other"
}

func evaluate(rn *run, k int, im *image) (vs []verdict, stale int, err error) {
	dir, err := materialise(im)
	defer os.RemoveAll(dir)
	if err != nil {
		return nil, 0, err
	}
	pt := &rn.rec.points[k]
	var got *recovered
	var pmsg string
	func() {
		defer func() {
			if p := recover(); p != nil {
				pmsg = fmt.Sprint(p)
			}
		}()
		got = recoverDir(rn.sh, dir)
	}()
	if pmsg != "" {
		if len(pmsg) > 300 {
			pmsg = pmsg[:300]
		}
		pmsg = strings.ReplaceAll(pmsg, dir, "<root>")
		return []verdict{{"recovery-panics:" + classifyPanic(pmsg), pmsg}}, 0, nil
	}
	// which batches are visible
	seen := map[int]int{}
	for _, r := range got.Rows {
		m := tsRe.FindStringSubmatch(r + " ")
		if m == nil {
			vs = append(vs, verdict{"rows-differ", "unparsable row " + r})
			continue
		}
		ts, _ := strconv.Atoi(m[1])
		seen[ts/1000]++
	}
	j := 0
	for seen[j+1] > 0 {
		j++
	}
	var bl []int
	for b := range seen {
		bl = append(bl, b)
	}
	sort.Ints(bl)
	if len(seen) != j {
		vs = append(vs, verdict{"non-prefix", fmt.Sprintf("visible batches %v of %d acknowledged", bl, pt.acked)})
	}
	for b := range pt.cover {
		if seen[b] == 0 {
			vs = append(vs, verdict{"durable-batch-lost", fmt.Sprintf("batch %d is covered by the last durably published manifest, visible batches %v", b, bl)})
			break
		}
	}
	for _, b := range bl {
		if b > pt.acked {
			vs = append(vs, verdict{"unacknowledged-batch-visible", fmt.Sprintf("batch %d visible, %d acknowledged", b, pt.acked)})
		}
	}
	var want []string
	for _, b := range bl {
		want = append(want, rn.batchRow[b]...)
	}
	sort.Strings(want)
	if strings.Join(want, "\n") != strings.Join(got.Rows, "\n") {
		vs = append(vs, verdict{"rows-differ", fmt.Sprintf("rows of batches %v: %d expected, %d returned (torn or incomplete part served)", bl, len(want), len(got.Rows))})
	}
	// leftovers
	served := map[string]bool{}
	for _, id := range got.Parts {
		served[fmt.Sprintf("%016x", id)] = true
	}
	snps := 0
	for _, p := range measure.VerifListTree(dir) {
		isDir := strings.HasSuffix(p, "/")
		p = strings.TrimSuffix(p, "/")
		switch {
		case strings.HasSuffix(p, ".tmp"):
			vs = append(vs, verdict{"leftover-tmp-not-cleaned:" + kindOf(p), p})
		case isDir && parentOf(p) == "" && partDirRe.MatchString(p) && !served[p]:
			vs = append(vs, verdict{"leftover-orphan-part-dir", p})
		case !isDir && parentOf(p) == "" && strings.HasSuffix(p, ".snp"):
			b, _ := os.ReadFile(filepath.Join(dir, p))
			var names []string
			if json.Unmarshal(b, &names) != nil {
				vs = append(vs, verdict{"leftover-unreadable-manifest", p})
			} else {
				snps++
			}
		}
	}
	if snps > 1 {
		stale = snps - 1
	}
	return vs, stale, nil
}

func crashClass(rn *run, k int) string {
	lg := rn.rec.log
	d := func(e sysEvent) string {
		op := e.Op
		if op == "bufflush" {
			op = "write"
		}
		t := e.Path
		if e.To != "" {
			t = e.To
		}
		return op + "-" + kindOf(t)
	}
	switch {
	case k == 0:
		return "at-start"
	case k >= len(lg):
		return "after-" + d(lg[k-1]) + "-at-end"
	}
	return "after-" + d(lg[k-1]) + "-before-" + d(lg[k])
}

// ---------- main ----------

type cfgT struct {
	Hist      []string `json:"hist"`
	Shape     shape    `json:"shape"`
	OnlyK     int      `json:"only_k"`
	OnlyVar   string   `json:"only_variant"`
	OnlyDet   string   `json:"only_detail"`
	MaxSubset int      `json:"max_subset"`
	ID        int      `json:"id"`
}

func main() {
	cfgs := flag.String("cfg", "{}", "json: {hist, shape, only_k, only_variant, max_subset}")
	out := flag.String("out", "", "result file")
	tracep := flag.String("trace", "", "write the spec-level trace (ndjson) here")
	expectp := flag.String("expect", "", "write the harness' per-event expectations (ndjson) here")
	flag.Parse()
	_ = logger.Init(logger.Logging{Env: "prod", Level: "fatal"})
	res := vlib.NewResult()
	defer res.Write(*out)
	cfg := cfgT{OnlyK: -1, MaxSubset: 4}
	if err := json.Unmarshal([]byte(*cfgs), &cfg); err != nil {
		res.Inconclusive = append(res.Inconclusive, "bad cfg: "+err.Error())
		return
	}
	root, err := os.MkdirTemp("", "c04tbl")
	if err != nil {
		res.Inconclusive = append(res.Inconclusive, err.Error())
		return
	}
	defer os.RemoveAll(root)
	rn, err := execute(root, cfg.Hist, cfg.Shape)
	if err != nil {
		res.Inconclusive = append(res.Inconclusive, err.Error())
		return
	}
	res.Inconclusive = append(res.Inconclusive, rn.problems...)
	writeND := func(path string, lines []map[string]any) {
		if path == "" {
			return
		}
		var sb strings.Builder
		for _, l := range lines {
			b, _ := json.Marshal(l)
			sb.Write(b)
			sb.WriteByte('\n')
		}
		_ = os.WriteFile(path, []byte(sb.String()), 0o644)
	}
	writeND(*tracep, rn.rec.trace)
	writeND(*expectp, rn.rec.expect)
	res.Behaviours = 1
	res.Steps = len(rn.rec.log)
	res.Stats["syscalls"] = len(rn.rec.log)
	res.Stats["crash_points"] = len(rn.rec.points)
	seenImg := map[string]bool{}
	classes := map[string]bool{}
	variants := map[string]bool{}
	seenSig := map[string]bool{}
	maxPend := 0
	for k := range rn.rec.points {
		if cfg.OnlyK >= 0 && k != cfg.OnlyK {
			continue
		}
		pt := &rn.rec.points[k]
		if len(pt.pend) > maxPend {
			maxPend = len(pt.pend)
		}
		cls := crashClass(rn, k)
		for _, im := range images(rn, k, cfg.MaxSubset) {
			if cfg.OnlyVar != "" && (im.variant != cfg.OnlyVar || im.detail != cfg.OnlyDet) {
				continue
			}
			res.Inc("images_built")
			h := im.hash() + fmt.Sprint(pt.acked, pt.cover)
			if seenImg[h] {
				continue
			}
			seenImg[h] = true
			vs, stale, err := evaluate(rn, k, im)
			if err != nil {
				res.Inconclusive = append(res.Inconclusive, err.Error())
				return
			}
			res.Inc("images_recovered")
			res.Inc("variant:" + strings.SplitN(im.variant, ":", 2)[0])
			classes[cls] = true
			variants[im.variant] = true
			if len(pt.pend) > 0 || im.variant != "kill9" {
				res.Inc("nontrivial_images")
			}
			if stale > 0 {
				res.Inc("observation_stale_manifest_kept")
			}
			if len(vs) == 0 {
				res.Inc("recovered_ok")
			}
			for _, v := range vs {
				sig := v.kind
				if !strings.HasPrefix(v.kind, "leftover-") {
					sig += ":" + cls
				}
				res.Inc("viol:" + v.kind)
				if seenSig[sig] {
					continue
				}
				seenSig[sig] = true
				det, _ := json.Marshal(map[string]any{"what": v.detail, "crash_index": k, "crash_class": cls, "image": im.variant, "image_detail": im.detail, "possible_with_ordered_dirents": im.ordered,
					"macro_op": pt.macro, "acked": pt.acked, "durable_cover": len(pt.cover), "pending_effects": len(pt.pend), "hist": cfg.Hist, "shape": cfg.Shape})
				res.Violations = append(res.Violations, vlib.Violation{Behaviour: cfg.ID, Step: k, Signature: sig, Detail: string(det)})
				res.Stats["violations_total"]++
			}
			if len(res.Samples) < 4 && (k == len(rn.rec.points)/3 || k == 2*len(rn.rec.points)/3) && im.variant != "kill9" {
				res.Samples = append(res.Samples, map[string]any{"hist": cfg.Hist, "crash_index": k, "crash_class": cls, "image": im.variant, "image_detail": im.detail,
					"files_in_image": len(im.files), "acked": pt.acked, "durable_cover": len(pt.cover), "verdicts": len(vs)})
			}
		}
	}
	res.Stats["crash_classes"] = len(classes)
	res.Stats["image_variants"] = len(variants)
	res.Stats["max_pending_effects"] = maxPend
}
