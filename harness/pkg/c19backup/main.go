// Command c19backup replays behaviours of spec/Backup.tla on the real backupSnapshot with a gated in-memory
// remote store: every upload parks at a gate until the behaviour's Done(f) step releases it; Cancel cancels the
// caller's context.
package main

import (
	"bytes"
	"context"
	"encoding/json"
	"flag"
	"fmt"
	"io"
	"os"
	"path/filepath"
	"sort"
	"strings"
	"sync"
	"time"

	"github.com/apache/skywalking-banyandb/banyand/backup"
	"github.com/apache/skywalking-banyandb/banyand/verifharness/vlib"
	"github.com/apache/skywalking-banyandb/pkg/logger"
)

type probe struct {
	ID      int      `json:"id"`
	Local   []string `json:"local"`
	Remote0 []string `json:"remote0"`
	Events  []string `json:"events"` // "cancel" | "done:<f>"   (after every file was walked), or a leading "cancel"
	Result  string   `json:"result"` // the specification's result: ok | error
	Remote  []string `json:"remote"` // the specification's final remote set
}

type gatedFS struct {
	mu      sync.Mutex
	files   map[string][]byte
	gates   map[string]chan struct{}
	arrived chan string
}

func (g *gatedFS) gate(p string) chan struct{} {
	g.mu.Lock()
	defer g.mu.Unlock()
	ch, ok := g.gates[p]
	if !ok {
		ch = make(chan struct{})
		g.gates[p] = ch
	}
	return ch
}

func (g *gatedFS) Upload(ctx context.Context, p string, data io.Reader) error {
	ch := g.gate(p)
	g.arrived <- p
	select {
	case <-ch:
	case <-ctx.Done():
		return ctx.Err()
	}
	if err := ctx.Err(); err != nil {
		return err
	}
	b, err := io.ReadAll(data)
	if err != nil {
		return err
	}
	g.mu.Lock()
	g.files[p] = b
	g.mu.Unlock()
	return nil
}

func (g *gatedFS) Download(_ context.Context, p string) (io.ReadCloser, error) {
	g.mu.Lock()
	defer g.mu.Unlock()
	b, ok := g.files[p]
	if !ok {
		return nil, fmt.Errorf("not found: %s", p)
	}
	return io.NopCloser(bytes.NewReader(b)), nil
}

func (g *gatedFS) List(_ context.Context, prefix string) ([]string, error) {
	g.mu.Lock()
	defer g.mu.Unlock()
	var out []string
	for p := range g.files {
		if strings.HasPrefix(p, prefix) {
			out = append(out, p)
		}
	}
	sort.Strings(out)
	return out, nil
}

func (g *gatedFS) Delete(_ context.Context, p string) error {
	g.mu.Lock()
	defer g.mu.Unlock()
	delete(g.files, p)
	return nil
}

func (g *gatedFS) Close() error { return nil }

func main() {
	out := flag.String("out", "", "result file")
	in := flag.String("in", "", "json list of probes")
	flag.Parse()
	_ = logger.Init(logger.Logging{Env: "prod", Level: "fatal"})
	res := vlib.NewResult()
	defer res.Write(*out)
	raw, err := os.ReadFile(*in)
	var probes []probe
	if err == nil {
		err = json.Unmarshal(raw, &probes)
	}
	if err != nil {
		res.Inconclusive = append(res.Inconclusive, "probes: "+err.Error())
		return
	}
	const prefix = "day1/measure/"
	for _, p := range probes {
		res.Behaviours++
		dir, derr := os.MkdirTemp("", "c19backup")
		if derr != nil {
			res.Inconclusive = append(res.Inconclusive, derr.Error())
			return
		}
		for _, f := range p.Local {
			_ = os.WriteFile(filepath.Join(dir, f), []byte("content of "+f), 0o600)
		}
		g := &gatedFS{files: map[string][]byte{}, gates: map[string]chan struct{}{}, arrived: make(chan string, 64)}
		r0 := map[string]bool{}
		for _, f := range p.Remote0 {
			g.files[prefix+f] = []byte("content of " + f)
			r0[f] = true
		}
		expect := 0
		for _, f := range p.Local {
			if !r0[f] {
				expect++
			}
		}
		ctx, cancel := context.WithCancel(context.Background())
		ev := p.Events
		if len(ev) > 0 && ev[0] == "cancel!" { // cancelled before the walk starts
			cancel()
			ev = ev[1:]
			expect = 0
		}
		done := make(chan error, 1)
		go func() { done <- backup.VerifBackupSnapshot(ctx, g, dir, "measure", "day1", 16) }()
		ok := true
		for i := 0; i < expect && ok; i++ {
			select {
			case <-g.arrived:
			case <-time.After(20 * time.Second):
				ok = false
			}
		}
		if !ok {
			res.Inconclusive = append(res.Inconclusive, fmt.Sprintf("probe %d: the uploads were not dispatched", p.ID))
			cancel()
			os.RemoveAll(dir)
			continue
		}
		for _, e := range ev {
			res.Steps++
			if e == "cancel" {
				cancel()
				time.Sleep(20 * time.Millisecond) // parked uploads observe ctx.Done themselves
				continue
			}
			f := strings.TrimPrefix(e, "done:")
			ch := g.gate(prefix + f)
			select {
			case <-ch:
			default:
				close(ch)
			}
			if ctx.Err() == nil { // not cancelled: the step is complete when the file is stored
				for i := 0; i < 5000; i++ {
					g.mu.Lock()
					_, stored := g.files[prefix+f]
					g.mu.Unlock()
					if stored {
						break
					}
					time.Sleep(time.Millisecond)
				}
			}
		}
		var rerr error
		select {
		case rerr = <-done:
		case <-time.After(20 * time.Second):
			res.Inconclusive = append(res.Inconclusive, fmt.Sprintf("probe %d: backupSnapshot did not return", p.ID))
			cancel()
			os.RemoveAll(dir)
			continue
		}
		cancel()
		os.RemoveAll(dir)
		var remote []string
		for k := range g.files {
			remote = append(remote, strings.TrimPrefix(k, prefix))
		}
		sort.Strings(remote)
		has := map[string]bool{}
		for _, f := range remote {
			has[f] = true
		}
		if len(res.Samples) < 3 {
			res.Samples = append(res.Samples, map[string]any{"probe": p, "error": fmt.Sprint(rerr), "remote": remote})
		}
		res.Inc("replayed")
		if rerr == nil {
			var missing []string
			for _, f := range p.Local {
				if !has[f] {
					missing = append(missing, f)
				}
			}
			if len(missing) > 0 {
				res.Violate(p.ID, len(ev), "backup-success-with-incomplete-copy",
					"events %v: backupSnapshot returned nil but %v of the snapshot are not in the remote copy (remote: %v)", p.Events, missing, remote)
				continue
			}
		} else {
			var lost []string
			for _, f := range p.Remote0 {
				if !has[f] {
					lost = append(lost, f)
				}
			}
			if len(lost) > 0 {
				res.Violate(p.ID, len(ev), "backup-failure-destroyed-previous-copy",
					"events %v: backupSnapshot failed (%v) and removed %v of the previous backup", p.Events, rerr, lost)
				continue
			}
		}
		want := append([]string(nil), p.Remote...)
		sort.Strings(want)
		got := "ok"
		if rerr != nil {
			got = "error"
		}
		if got != p.Result || strings.Join(want, ",") != strings.Join(remote, ",") {
			res.Inc("differs_from_spec")
			res.Inconclusive = append(res.Inconclusive, fmt.Sprintf("probe %d events %v: spec result=%s remote=%v, code result=%s (%v) remote=%v",
				p.ID, p.Events, p.Result, want, got, rerr, remote))
		}
	}
}
