// Command c12 binds spec/KeyCodec.tla to pkg/convert (sort-key encodings), pkg/pb/v1 (series key) and
// pkg/index (numeric term values).
//
//	-mode cases -in cases.ndjson [-random N]   every TLC-enumerated case (a state of KeyCodec.tla) is embedded into
//	                                           the real domain (toy width -> 64/32 bit patterns, toy alphabet -> real
//	                                           bytes) and executed on the real functions; the outcome must satisfy the
//	                                           relation the spec defines (its `rel` field / its invariants).  Then N
//	                                           seeded random real-domain cases against the same relation.
//	-mode raw -in raw.ndjson                   re-executes concrete real-domain cases (reproduction, --replay).
//	-mutate int-swap|float-swap|entity-noescape  binding self-test: corrupts the REAL encoder's output inside the
//	                                           harness; the machinery must report it.
//
// Verdict discipline: a Violate is a failure of the property relation by the real code.  A disagreement between
// the embedding and the spec (Go's own comparison differs from the spec's rel, real buffer differs from the spec's
// buffer although the relation holds) is Inconclusive: it is a defect of the machinery, not of the code.
package main

import (
	"bytes"
	"encoding/binary"
	"encoding/hex"
	"encoding/json"
	"flag"
	"fmt"
	"hash/fnv"
	"math"
	"math/rand"
	"os"
	"sort"
	"strconv"
	"strings"

	"github.com/blugelabs/bluge/numeric"

	modelv1 "github.com/apache/skywalking-banyandb/api/proto/banyandb/model/v1"
	"github.com/apache/skywalking-banyandb/banyand/verifharness/vlib"
	"github.com/apache/skywalking-banyandb/pkg/convert"
	"github.com/apache/skywalking-banyandb/pkg/index"
	pbv1 "github.com/apache/skywalking-banyandb/pkg/pb/v1"
)

type harness struct {
	res      *vlib.Result
	repro    []any
	mutate   string
	keys     map[string]string // marshaled series buffer -> canonical identity of the entity that produced it
	keyRaw   map[string]any    // marshaled series buffer -> raw case (for the reproduction of a collision)
	nontriv  map[uint64]struct{}
	caseIdx  int
	embIdx   int
	nSamples int
}

type output struct {
	*vlib.Result
	Repro []any `json:"repro"`
}

// violate records the first violation of every signature (at most 50 signatures) and counts all of them.
func (h *harness) violate(sig string, raw any, format string, a ...any) {
	h.res.Stats["violations:"+sig]++
	if h.res.Stats["violations:"+sig] == 1 && len(h.res.Violations) < 50 {
		h.repro = append(h.repro, raw)
		h.res.Violate(len(h.repro)-1, h.embIdx, sig, format, a...)
		h.res.Violations[len(h.res.Violations)-1].Detail += fmt.Sprintf(" [case %d embedding %d]", h.caseIdx, h.embIdx)
		return
	}
	h.res.Stats["violations_total"]++
}

func (h *harness) inconclusive(format string, a ...any) {
	if len(h.res.Inconclusive) < 20 {
		h.res.Inconclusive = append(h.res.Inconclusive, fmt.Sprintf(format, a...))
	}
}

func (h *harness) sample(v any) {
	if h.nSamples < 12 {
		h.res.Samples = append(h.res.Samples, v)
		h.nSamples++
	}
}

func (h *harness) markNontrivial(nontrivial bool, parts ...any) {
	if !nontrivial {
		return
	}
	f := fnv.New64a()
	fmt.Fprint(f, parts...)
	h.nontriv[f.Sum64()] = struct{}{}
}

// ---------------------------------------------------------------------------------------------------------------
// the real encoders, behind the self-test mutation switch

func (h *harness) encInt64(x int64) []byte {
	b := convert.Int64ToBytes(x)
	if h.mutate == "int-swap" {
		b[0], b[7] = b[7], b[0]
	}
	return b
}

func (h *harness) encFloat(f float64) []byte {
	b := convert.Float64ToOrderedBytes(f)
	if h.mutate == "float-swap" {
		b[0], b[1] = b[1], b[0]
	}
	return b
}

func (h *harness) mutateKey(buf []byte) []byte {
	if h.mutate != "entity-noescape" {
		return buf
	}
	return bytes.ReplaceAll(buf, []byte{'\\'}, nil)
}

// ---------------------------------------------------------------------------------------------------------------
// relation helpers

func relOf(lt, gt bool) string {
	if lt {
		return "lt"
	}
	if gt {
		return "gt"
	}
	return "eq"
}

// checkOrder compares bytes.Compare of two encodings with the relation demanded by the spec.
func orderHolds(rel string, cmp int) bool {
	switch rel {
	case "lt":
		return cmp < 0
	case "gt":
		return cmp > 0
	case "eq":
		return cmp == 0
	}
	return true
}

func intClass(x, minV, maxV int64) string {
	switch {
	case x == minV:
		return "minint"
	case x == maxV:
		return "maxint"
	case x == 0:
		return "zero"
	case x == -1:
		return "negone"
	case x == 1:
		return "one"
	case x < 0:
		return "neg"
	}
	return "pos"
}

var intPrio = []string{"minint", "maxint", "zero", "negone", "one"}

func pairClass(ca, cb string, prio []string) string {
	for _, p := range prio {
		if ca == p || cb == p {
			return p
		}
	}
	if ca > cb {
		ca, cb = cb, ca
	}
	if ca == cb {
		return ca
	}
	return ca + "-" + cb
}

// ---------------------------------------------------------------------------------------------------------------
// integers

func (h *harness) checkInt64(a, b int64, rel string) {
	raw := map[string]any{"k": "int64", "a": strconv.FormatInt(a, 10), "b": strconv.FormatInt(b, 10), "rel": rel}
	if relOf(a < b, a > b) != rel {
		h.inconclusive("embedding disagrees with the spec: int64 %d vs %d is %s in Go, spec says %s", a, b, relOf(a < b, a > b), rel)
		return
	}
	h.res.Inc("eval_int64")
	ca, cb := intClass(a, math.MinInt64, math.MaxInt64), intClass(b, math.MinInt64, math.MaxInt64)
	h.markNontrivial(ca != "pos" || cb != "pos", "i64", a, b)
	ea, eb := h.encInt64(a), h.encInt64(b)
	if len(ea) != 8 || len(eb) != 8 {
		h.violate("int64-width", raw, "Int64ToBytes returned %d/%d bytes", len(ea), len(eb))
		return
	}
	if cmp := bytes.Compare(ea, eb); !orderHolds(rel, cmp) {
		h.violate("int64-order:"+pairClass(ca, cb, intPrio), raw, "%d %s %d but bytes.Compare(%x, %x) = %d", a, rel, b, ea, eb, cmp)
	}
	for _, x := range [][2]any{{a, ea}, {b, eb}} {
		v, e := x[0].(int64), x[1].([]byte)
		if d := convert.BytesToInt64(e); d != v {
			h.violate("int64-roundtrip:"+intClass(v, math.MinInt64, math.MaxInt64), raw, "BytesToInt64(Int64ToBytes(%d)=%x) = %d", v, e, d)
		}
	}
	// the index keeps numeric range bounds as FloatTermValue (numeric.Int64ToFloat64) and reads them back
	// with numeric.Float64ToInt64 (pkg/index/inverted): that detour through Marshal/Unmarshal must be exact
	ro := index.NewIntRangeOpts(a, b, true, true)
	if data, err := ro.Marshal(); err != nil {
		h.violate("index-intterm-roundtrip", raw, "RangeOpts.Marshal: %v", err)
	} else {
		var back index.RangeOpts
		if err := back.Unmarshal(data); err != nil {
			h.violate("index-intterm-roundtrip", raw, "RangeOpts.Unmarshal: %v", err)
		} else {
			lo, ok1 := back.Lower.(*index.FloatTermValue)
			up, ok2 := back.Upper.(*index.FloatTermValue)
			if !ok1 || !ok2 || numeric.Float64ToInt64(lo.Value) != a || numeric.Float64ToInt64(up.Value) != b {
				h.violate("index-intterm-roundtrip", raw, "NewIntRangeOpts(%d, %d) reads back as %v, %v", a, b, back.Lower, back.Upper)
			}
		}
	}
	h.sample(map[string]any{"int64": []string{strconv.FormatInt(a, 10), strconv.FormatInt(b, 10)}, "enc": []string{hex.EncodeToString(ea), hex.EncodeToString(eb)}, "rel": rel})
}

func (h *harness) checkInt32(a, b int32, rel string) {
	raw := map[string]any{"k": "int32", "a": strconv.FormatInt(int64(a), 10), "b": strconv.FormatInt(int64(b), 10), "rel": rel}
	if relOf(a < b, a > b) != rel {
		h.inconclusive("embedding disagrees with the spec: int32 %d vs %d, spec says %s", a, b, rel)
		return
	}
	h.res.Inc("eval_int32")
	ca, cb := intClass(int64(a), math.MinInt32, math.MaxInt32), intClass(int64(b), math.MinInt32, math.MaxInt32)
	ea, eb := convert.Int32ToBytes(a), convert.Int32ToBytes(b)
	if cmp := bytes.Compare(ea, eb); len(ea) != 4 || len(eb) != 4 || !orderHolds(rel, cmp) {
		h.violate("int32-order:"+pairClass(ca, cb, intPrio), raw, "%d %s %d but bytes.Compare(%x, %x) = %d", a, rel, b, ea, eb, cmp)
	}
	if d := convert.BytesToInt32(ea); d != a {
		h.violate("int32-roundtrip:"+ca, raw, "BytesToInt32(Int32ToBytes(%d)=%x) = %d", a, ea, d)
	}
	// Int16ToBytes is a plain two's complement storage format (decimal exponents), not a sort key: fidelity only
	for _, v := range []int16{int16(a), int16(b), int16(a >> 16)} {
		if d := convert.BytesToInt16(convert.Int16ToBytes(v)); d != v {
			h.violate("int16-roundtrip", raw, "BytesToInt16(Int16ToBytes(%d)) = %d", v, d)
		}
	}
}

func (h *harness) checkUint64(a, b uint64, rel string) {
	raw := map[string]any{"k": "uint64", "a": strconv.FormatUint(a, 10), "b": strconv.FormatUint(b, 10), "rel": rel}
	if relOf(a < b, a > b) != rel {
		h.inconclusive("embedding disagrees with the spec: uint64 %d vs %d, spec says %s", a, b, rel)
		return
	}
	h.res.Inc("eval_uint64")
	h.markNontrivial(a == 0 || b == 0 || a == math.MaxUint64 || b == math.MaxUint64 || (a>>63) != (b>>63), "u64", a, b)
	ea, eb := convert.Uint64ToBytes(a), convert.Uint64ToBytes(b)
	if cmp := bytes.Compare(ea, eb); len(ea) != 8 || len(eb) != 8 || !orderHolds(rel, cmp) {
		h.violate("uint64-order", raw, "%d %s %d but bytes.Compare(%x, %x) = %d", a, rel, b, ea, eb, cmp)
	}
	if d := convert.BytesToUint64(ea); d != a {
		h.violate("uint64-roundtrip", raw, "BytesToUint64(Uint64ToBytes(%d)) = %d", a, d)
	}
	a32, b32 := uint32(a>>32), uint32(b>>32)
	e32a, e32b := convert.Uint32ToBytes(a32), convert.Uint32ToBytes(b32)
	if cmp := bytes.Compare(e32a, e32b); !orderHolds(relOf(a32 < b32, a32 > b32), cmp) {
		h.violate("uint32-order", raw, "uint32 %d vs %d but bytes.Compare(%x, %x) = %d", a32, b32, e32a, e32b, cmp)
	}
	if d := convert.BytesToUint32(e32a); d != a32 {
		h.violate("uint32-roundtrip", raw, "BytesToUint32(Uint32ToBytes(%d)) = %d", a32, d)
	}
}

// composite key: two fixed-width encodings concatenated (second component an int64 or, flavour "if", a float64)
func (h *harness) checkComp(a1, a2, b1, b2 int64, flavour, rel string) {
	raw := map[string]any{"k": "comp", "a1": strconv.FormatInt(a1, 10), "a2": strconv.FormatInt(a2, 10),
		"b1": strconv.FormatInt(b1, 10), "b2": strconv.FormatInt(b2, 10), "flavour": flavour, "rel": rel}
	lt := a1 < b1 || (a1 == b1 && a2 < b2)
	gt := b1 < a1 || (a1 == b1 && b2 < a2)
	if relOf(lt, gt) != rel {
		h.inconclusive("embedding disagrees with the spec: composite (%d,%d) vs (%d,%d), spec says %s", a1, a2, b1, b2, rel)
		return
	}
	h.res.Inc("eval_comp")
	h.markNontrivial(a1 == b1 || (a1 < 0) != (b1 < 0) || (a2 < 0) != (b2 < 0), "comp", flavour, a1, a2, b1, b2)
	var ka, kb []byte
	if flavour == "if" {
		ka = append(h.encInt64(a1), h.encFloat(float64(a2))...)
		kb = append(h.encInt64(b1), h.encFloat(float64(b2))...)
	} else {
		ka = append(h.encInt64(a1), h.encInt64(a2)...)
		kb = append(h.encInt64(b1), h.encInt64(b2)...)
	}
	if cmp := bytes.Compare(ka, kb); !orderHolds(rel, cmp) {
		h.violate("comp-order:"+flavour, raw, "(%d,%d) %s (%d,%d) but bytes.Compare(%x, %x) = %d", a1, a2, rel, b1, b2, ka, kb, cmp)
	}
}

// ---------------------------------------------------------------------------------------------------------------
// floats: the relation of KeyCodec.tla (Sign/Exp/Man/IsNaN/IsZero/NumLess/Class) evaluated at E=11, M=52

const (
	fSign = uint64(1) << 63
	fExpM = uint64(0x7FF)
	fManM = uint64(1)<<52 - 1
)

func fIsNaN(b uint64) bool  { return (b>>52)&fExpM == fExpM && b&fManM != 0 }
func fIsZero(b uint64) bool { return b&^fSign == 0 }

func fNumLess(a, b uint64) bool {
	sa, sb := a>>63, b>>63
	ma, mb := a&^fSign, b&^fSign
	switch {
	case fIsZero(a) && fIsZero(b):
		return false
	case sa == 0 && sb == 0:
		return ma < mb
	case sa == 1 && sb == 1:
		return ma > mb
	case sa == 1 && sb == 0:
		return true
	}
	return false
}

func fRel(a, b uint64) string {
	if fIsNaN(a) || fIsNaN(b) {
		return "un"
	}
	return relOf(fNumLess(a, b), fNumLess(b, a))
}

func fClass(b uint64) string {
	neg := b>>63 == 1
	pick := func(n, p string) string {
		if neg {
			return n
		}
		return p
	}
	e := (b >> 52) & fExpM
	switch {
	case fIsNaN(b):
		return "nan"
	case fIsZero(b):
		return pick("negzero", "poszero")
	case e == fExpM:
		return pick("neginf", "posinf")
	case e == 0:
		return pick("negsub", "possub")
	}
	return pick("negnormal", "posnormal")
}

var floatPrio = []string{"negzero", "nan", "poszero", "neginf", "posinf"}

func (h *harness) checkFloat64(a, b uint64, rel string) {
	raw := map[string]any{"k": "float64", "a": fmt.Sprintf("%016x", a), "b": fmt.Sprintf("%016x", b), "rel": rel}
	fa, fb := math.Float64frombits(a), math.Float64frombits(b)
	goRel := "un"
	if fa == fa && fb == fb {
		goRel = relOf(fa < fb, fa > fb)
	}
	if goRel != rel || fRel(a, b) != rel {
		h.inconclusive("embedding disagrees with the spec: float64 %016x vs %016x is %s in Go / %s by NumLess, spec says %s", a, b, goRel, fRel(a, b), rel)
		return
	}
	h.res.Inc("eval_float64")
	ca, cb := fClass(a), fClass(b)
	h.markNontrivial(!(strings.HasSuffix(ca, "normal") && strings.HasSuffix(cb, "normal")) || ca != cb, "f64", a, b)
	ea, eb := h.encFloat(fa), h.encFloat(fb)
	if len(ea) != 8 || len(eb) != 8 {
		h.violate("float-width", raw, "Float64ToOrderedBytes returned %d/%d bytes", len(ea), len(eb))
		return
	}
	cmp := bytes.Compare(ea, eb)
	switch {
	case rel == "lt" && cmp >= 0, rel == "gt" && cmp <= 0:
		h.violate("float-order:"+pairClass(ca, cb, floatPrio), raw, "%v (%016x, %s) %s %v (%016x, %s) but bytes.Compare(%x, %x) = %d",
			fa, a, ca, rel, fb, b, cb, ea, eb, cmp)
	case rel == "eq" && a == b && cmp != 0:
		h.violate("float-order:"+pairClass(ca, cb, floatPrio), raw, "the same value %016x encodes to %x and %x", a, ea, eb)
		// rel == "eq" with a != b is -0.0 against +0.0: numerically equal, either byte order (or equal bytes) is
		// order-correct; bit fidelity of -0.0 is the round-trip check below
	}
	for _, x := range [][2]any{{a, ea}, {b, eb}} {
		v, e := x[0].(uint64), x[1].([]byte)
		d := math.Float64bits(convert.OrderedBytesToFloat64(e))
		if fIsNaN(v) {
			if !fIsNaN(d) {
				h.violate("float-roundtrip:nan", raw, "NaN %016x encodes to %x which decodes to %016x (%v), not a NaN", v, e, d, math.Float64frombits(d))
			}
		} else if d != v {
			h.violate("float-roundtrip:"+fClass(v), raw, "%v (%016x) encodes to %x which decodes to %016x (%v)", math.Float64frombits(v), v, e, d, math.Float64frombits(d))
		}
		// plain (storage / term value) float bytes: bit-exact fidelity
		if p := math.Float64bits(convert.BytesToFloat64(convert.Float64ToBytes(math.Float64frombits(v)))); p != v {
			h.violate("float-plain-roundtrip:"+fClass(v), raw, "BytesToFloat64(Float64ToBytes(%016x)) = %016x", v, p)
		}
		if ap := convert.AppendFloat64Bytes([]byte{0xAA}, math.Float64frombits(v)); len(ap) != 9 || binary.BigEndian.Uint64(ap[1:]) != v {
			h.violate("float-plain-roundtrip:"+fClass(v), raw, "AppendFloat64Bytes(%016x) = %x", v, ap)
		}
		tv := index.FloatTermValue{Value: math.Float64frombits(v)}
		if data, err := tv.Marshal(); err != nil {
			h.violate("index-floatterm-roundtrip:"+fClass(v), raw, "FloatTermValue.Marshal: %v", err)
		} else {
			var back index.FloatTermValue
			if err := back.Unmarshal(data); err != nil || math.Float64bits(back.Value) != v {
				h.violate("index-floatterm-roundtrip:"+fClass(v), raw, "FloatTermValue %016x reads back as %016x (err %v)", v, math.Float64bits(back.Value), err)
			}
		}
	}
	if ca != "posnormal" || cb != "posnormal" {
		h.sample(map[string]any{"float64": []string{fmt.Sprintf("%016x", a), fmt.Sprintf("%016x", b)}, "class": []string{ca, cb},
			"enc": []string{hex.EncodeToString(ea), hex.EncodeToString(eb)}, "rel": rel})
	}
}

// ---------------------------------------------------------------------------------------------------------------
// series keys

type eval struct {
	T string // null | str | int | bin
	C []byte
	I int64
}

type entity struct {
	Subj []byte
	Vals []eval
}

func (e entity) raw() map[string]any {
	vals := make([]any, 0, len(e.Vals))
	for _, v := range e.Vals {
		m := map[string]any{"t": v.T}
		switch v.T {
		case "int":
			m["i"] = strconv.FormatInt(v.I, 10)
		case "str", "bin":
			m["hex"] = hex.EncodeToString(v.C)
		}
		vals = append(vals, m)
	}
	return map[string]any{"k": "entity", "subj": hex.EncodeToString(e.Subj), "vals": vals}
}

// identity: the canonical name of the entity (what "the same entity" means): subject and typed values
func (e entity) identity() string {
	var sb strings.Builder
	fmt.Fprintf(&sb, "%x", e.Subj)
	for _, v := range e.Vals {
		switch v.T {
		case "int":
			fmt.Fprintf(&sb, ";int:%d", v.I)
		case "null":
			sb.WriteString(";null")
		default:
			fmt.Fprintf(&sb, ";%s:%x", v.T, v.C)
		}
	}
	return sb.String()
}

func (e entity) class() string {
	f := map[string]bool{}
	scan := func(b []byte) {
		for _, c := range b {
			switch c {
			case '|':
				f["delim"] = true
			case '\\':
				f["escape"] = true
			case 0:
				f["nul"] = true
			}
		}
	}
	scan(e.Subj)
	for _, v := range e.Vals {
		switch v.T {
		case "null":
			f["null"] = true
		case "int":
			f["int"] = true
			scan(encZigZag(v.I))
		default:
			if len(v.C) == 0 {
				f["empty"] = true
			}
			scan(v.C)
		}
	}
	if len(f) == 0 {
		return "plain"
	}
	keys := make([]string, 0, len(f))
	for k := range f {
		keys = append(keys, k)
	}
	sort.Strings(keys)
	return strings.Join(keys, "+")
}

func encZigZag(v int64) []byte {
	u := uint64((v << 1) ^ (v >> 63))
	var b [8]byte
	binary.BigEndian.PutUint64(b[:], u)
	return b[:]
}

func (e entity) tagValues(nilRep bool) []*modelv1.TagValue {
	out := make([]*modelv1.TagValue, 0, len(e.Vals))
	for _, v := range e.Vals {
		switch v.T {
		case "null":
			if nilRep {
				out = append(out, &modelv1.TagValue{Value: &modelv1.TagValue_Null{}})
			} else {
				out = append(out, pbv1.NullTagValue)
			}
		case "str":
			out = append(out, &modelv1.TagValue{Value: &modelv1.TagValue_Str{Str: &modelv1.Str{Value: string(v.C)}}})
		case "int":
			out = append(out, &modelv1.TagValue{Value: &modelv1.TagValue_Int{Int: &modelv1.Int{Value: v.I}}})
		case "bin":
			b := append([]byte{}, v.C...)
			if nilRep && len(b) == 0 {
				b = nil
			}
			out = append(out, &modelv1.TagValue{Value: &modelv1.TagValue_BinaryData{BinaryData: b}})
		}
	}
	return out
}

func sameValue(want eval, got *modelv1.TagValue) bool {
	if got == nil {
		return false
	}
	switch x := got.Value.(type) {
	case *modelv1.TagValue_Null:
		// an empty string or byte value may read back as null
		return want.T == "null" || ((want.T == "str" || want.T == "bin") && len(want.C) == 0)
	case *modelv1.TagValue_Str:
		return want.T == "str" && x.Str.GetValue() == string(want.C)
	case *modelv1.TagValue_Int:
		return want.T == "int" && x.Int.GetValue() == want.I
	case *modelv1.TagValue_BinaryData:
		return want.T == "bin" && bytes.Equal(x.BinaryData, want.C)
	}
	return false
}

// checkEntity executes Series.Marshal/Unmarshal on one entity.  specBuf (identity embedding only) is the buffer the
// state of KeyCodec.tla holds.
func (h *harness) checkEntity(e entity, specBuf []byte) {
	raw := e.raw()
	cls := e.class()
	h.res.Inc("eval_entity")
	h.markNontrivial(cls != "plain", "ent", e.identity())
	defer func() {
		if r := recover(); r != nil {
			h.violate("entity-panic:"+cls, raw, "panic: %v", r)
		}
	}()
	s := &pbv1.Series{Subject: string(e.Subj), EntityValues: e.tagValues(false)}
	if err := s.Marshal(); err != nil {
		h.violate("entity-marshal-error:"+cls, raw, "Series.Marshal: %v", err)
		return
	}
	key := h.mutateKey(append([]byte{}, s.Buffer...))
	if specBuf != nil && !bytes.Equal(s.Buffer, specBuf) {
		h.inconclusive("the model of Series.Marshal deviates from the code: %s marshals to %x, KeyCodec.tla has %x", e.identity(), s.Buffer, specBuf)
	}
	// SameEntitySameKey: another representation of the same entity (nil instead of empty slices, fresh value
	// objects, a reused non-empty-capacity buffer, subject and values marshaled by separate calls)
	s2 := &pbv1.Series{Subject: string(append([]byte{}, e.Subj...)), EntityValues: e.tagValues(true), Buffer: make([]byte, 0, 7)}
	if err := s2.Marshal(); err != nil || !bytes.Equal(s2.Buffer, s.Buffer) || s2.ID != s.ID {
		h.violate("entity-samekey:"+cls, raw, "the same entity marshals to %x (id %d) and to %x (id %d, err %v)", s.Buffer, s.ID, s2.Buffer, s2.ID, err)
	}
	s3 := &pbv1.Series{Subject: string(e.Subj)}
	if err := s3.Marshal(); err == nil {
		if b3, err := pbv1.MarshalTagValues(s3.Buffer, e.tagValues(true)); err != nil || !bytes.Equal(b3, s.Buffer) {
			h.violate("entity-samekey:"+cls, raw, "Series.Marshal gives %x, subject + MarshalTagValues gives %x (err %v)", s.Buffer, b3, err)
		}
	}
	if uint64(s.ID) != convert.Hash(s.Buffer) {
		h.violate("entity-samekey:"+cls, raw, "Series.ID %d is not the hash of its buffer %x", s.ID, s.Buffer)
	}
	// RoundTrip
	var d pbv1.Series
	if err := d.Unmarshal(append([]byte{}, key...)); err != nil {
		h.violate("entity-roundtrip:"+cls, raw, "Series.Unmarshal(%x): %v", key, err)
	} else {
		ok := d.Subject == string(e.Subj) && len(d.EntityValues) == len(e.Vals)
		for i := 0; ok && i < len(e.Vals); i++ {
			ok = sameValue(e.Vals[i], d.EntityValues[i])
		}
		if !ok {
			h.violate("entity-roundtrip:"+cls, raw, "%s marshals to %x which unmarshals to subject %q values %v", e.identity(), key, d.Subject, d.EntityValues)
		} else if h.mutate == "" && d.ID != s.ID {
			h.violate("entity-samekey:"+cls, raw, "Unmarshal assigns id %d to the buffer of series id %d", d.ID, s.ID)
		}
	}
	// Injective: a buffer seen before must come from the same entity
	id := e.identity()
	if prev, ok := h.keys[string(key)]; ok {
		if prev != id {
			h.violate("entity-injective:"+cls, map[string]any{"k": "entity2", "x": h.keyRaw[string(key)], "y": raw},
				"two different entities share the series key %x: %s and %s", key, prev, id)
		}
	} else {
		h.keys[string(key)] = id
		if len(h.keyRaw) < 4_000_000 {
			h.keyRaw[string(key)] = raw
		}
	}
	h.res.Inc("eval_entity_keys")
	if cls != "plain" && (len(e.Vals) >= 2 || h.nSamples < 9) {
		h.sample(map[string]any{"entity": e.identity(), "key": hex.EncodeToString(s.Buffer), "id": uint64(s.ID)})
	}
}

// ---------------------------------------------------------------------------------------------------------------
// embeddings of the toy domain into the real one (strictly monotone, class preserving)

const nIntEmb = 3

func embedInt64(w int, x int64, emb int) int64 {
	lo, hi := -(int64(1) << (w - 1)), int64(1)<<(w-1)-1
	switch emb {
	case 0: // spread over the whole range: min -> MinInt64, max -> MaxInt64, -1, 0, 1 fixed
		switch {
		case x == lo:
			return math.MinInt64
		case x == hi:
			return math.MaxInt64
		case x >= -1 && x <= 1:
			return x
		case x < 0:
			return x << (64 - w)
		}
		return x<<(64-w) | (int64(1)<<(64-w) - 1)
	case 1: // the small numbers themselves
		return x
	}
	return x*(int64(1)<<31) + x // around the 32-bit boundary
}

func embedInt32(w int, x int64, emb int) int32 {
	lo, hi := -(int64(1) << (w - 1)), int64(1)<<(w-1)-1
	if emb == 0 {
		switch {
		case x == lo:
			return math.MinInt32
		case x == hi:
			return math.MaxInt32
		case x >= -1 && x <= 1:
			return int32(x)
		case x < 0:
			return int32(x << (32 - w))
		}
		return int32(x<<(32-w) | (int64(1)<<(32-w) - 1))
	}
	if emb == 1 {
		return int32(x)
	}
	return int32(x*(1<<15) + x)
}

func embedUint64(w int, x uint64, emb int) uint64 {
	hi := uint64(1)<<w - 1
	switch emb {
	case 0:
		switch {
		case x == hi:
			return math.MaxUint64
		case x <= 1:
			return x
		}
		return x<<(64-w) | (uint64(1)<<(64-w) - 1)
	case 1:
		return x
	}
	return x*(uint64(1)<<31) + x
}

// biased exponents of the normal numbers of the toy format, two choices; both contain MinNormal (1), 1.0 (1023)
// and MaxFloat64's exponent (2046)
var expAnchors = [][]uint64{
	{1023, 1, 2046, 1022, 1024, 2, 2045, 1075, 971, 3, 2044, 1021, 1025, 512},
	{1, 2046, 1023, 52, 53, 1074, 1076, 2, 2045, 1022, 1024, 1000, 1100, 1500},
}

const nFloatEmb = 6

func embedFloat64(eBits, mBits int, toy uint64, emb int) (uint64, bool) {
	s := toy >> (eBits + mBits)
	e := (toy >> mBits) & (uint64(1)<<eBits - 1)
	m := toy & (uint64(1)<<mBits - 1)
	maxE, maxM := uint64(1)<<eBits-1, uint64(1)<<mBits-1
	var e64 uint64
	switch {
	case e == 0:
		e64 = 0
	case e == maxE:
		e64 = 0x7FF
	default:
		n := int(maxE - 1)
		anchors := expAnchors[emb/3]
		if n > len(anchors) {
			return 0, false
		}
		pick := append([]uint64{}, anchors[:n]...)
		sort.Slice(pick, func(i, j int) bool { return pick[i] < pick[j] })
		e64 = pick[e-1]
	}
	var m64 uint64
	switch emb % 3 {
	case 0: // high bits: quiet/signalling NaNs, 1.5, ...
		m64 = m << (52 - mBits)
	case 1: // low bits: the smallest subnormal, next-after values
		m64 = m
	default: // all ones at the top: the largest subnormal, MaxFloat64
		m64 = m << (52 - mBits)
		if m == maxM {
			m64 = fManM
		}
	}
	return s<<63 | e64<<52 | m64, true
}

var relabels = []byte{0x01, 0x04, 0x2A, 0x7B, 0x7D, 0x5B, 0x5D, 0x7F}

func relabel(b []byte, to byte) []byte {
	out := make([]byte, len(b))
	for i, c := range b {
		if c == 'a' {
			c = to
		}
		out[i] = c
	}
	return out
}

// ---------------------------------------------------------------------------------------------------------------
// TLC cases

func i64(m map[string]any, k string) int64 { return int64(vlib.Int(m, k)) }

func byteList(v any) []byte {
	l, _ := v.([]any)
	out := make([]byte, 0, len(l))
	for _, x := range l {
		out = append(out, byte(vlib.AsInt(x)))
	}
	return out
}

func (h *harness) runCase(c map[string]any) {
	rel := vlib.Str(c, "rel")
	switch vlib.Str(c, "k") {
	case "int":
		w := vlib.Int(c, "w")
		for emb := 0; emb < nIntEmb; emb++ {
			h.embIdx = emb
			h.checkInt64(embedInt64(w, i64(c, "a"), emb), embedInt64(w, i64(c, "b"), emb), rel)
			h.checkInt32(embedInt32(w, i64(c, "a"), emb), embedInt32(w, i64(c, "b"), emb), rel)
		}
	case "uint":
		w := vlib.Int(c, "w")
		for emb := 0; emb < nIntEmb; emb++ {
			h.embIdx = emb
			h.checkUint64(embedUint64(w, uint64(i64(c, "a")), emb), embedUint64(w, uint64(i64(c, "b")), emb), rel)
		}
	case "comp":
		w := vlib.Int(c, "w")
		for emb := 0; emb < nIntEmb; emb++ {
			h.embIdx = emb
			h.checkComp(embedInt64(w, i64(c, "a1"), emb), embedInt64(w, i64(c, "a2"), emb),
				embedInt64(w, i64(c, "b1"), emb), embedInt64(w, i64(c, "b2"), emb), "ii", rel)
		}
		h.embIdx = nIntEmb // second component a float64 (small integers are exact floats)
		h.checkComp(embedInt64(w, i64(c, "a1"), 0), i64(c, "a2"), embedInt64(w, i64(c, "b1"), 0), i64(c, "b2"), "if", rel)
	case "float":
		eb, mb := vlib.Int(c, "e"), vlib.Int(c, "m")
		for emb := 0; emb < nFloatEmb; emb++ {
			h.embIdx = emb
			a, ok1 := embedFloat64(eb, mb, uint64(i64(c, "a")), emb)
			b, ok2 := embedFloat64(eb, mb, uint64(i64(c, "b")), emb)
			if !ok1 || !ok2 {
				h.inconclusive("no embedding for a %d-bit exponent", eb)
				return
			}
			if fClass(a) != vlib.Str(c, "ca") || fClass(b) != vlib.Str(c, "cb") {
				h.inconclusive("embedding is not class preserving: %016x is %s, spec says %s", a, fClass(a), vlib.Str(c, "ca"))
				return
			}
			h.checkFloat64(a, b, rel)
		}
	case "entity":
		var e entity
		e.Subj = byteList(c["subj"])
		for _, v := range vlib.List(c, "vals") {
			r := vlib.Rec(v)
			e.Vals = append(e.Vals, eval{T: vlib.Str(r, "t"), C: byteList(r["c"]), I: i64(r, "i")})
		}
		h.embIdx = 0
		h.checkEntity(e, byteList(c["buf"]))
		// ordinary byte 'a' relabelled to other ordinary bytes (type-byte look-alikes, neighbours of the special bytes)
		for k, to := range relabels {
			h.embIdx = k + 1
			r := entity{Subj: relabel(e.Subj, to)}
			changed := !bytes.Equal(r.Subj, e.Subj)
			for _, v := range e.Vals {
				nv := eval{T: v.T, C: relabel(v.C, to), I: v.I}
				changed = changed || !bytes.Equal(nv.C, v.C)
				r.Vals = append(r.Vals, nv)
			}
			if changed {
				h.checkEntity(r, nil)
			}
		}
	default:
		h.inconclusive("unknown case kind %q", vlib.Str(c, "k"))
	}
}

// ---------------------------------------------------------------------------------------------------------------
// raw (real-domain) cases: reproduction and --replay

func parseEntity(m map[string]any) (entity, error) {
	var e entity
	var err error
	if e.Subj, err = hex.DecodeString(vlib.Str(m, "subj")); err != nil {
		return e, err
	}
	for _, v := range vlib.List(m, "vals") {
		r := vlib.Rec(v)
		ev := eval{T: vlib.Str(r, "t")}
		switch ev.T {
		case "int":
			if ev.I, err = strconv.ParseInt(vlib.Str(r, "i"), 10, 64); err != nil {
				return e, err
			}
		case "str", "bin":
			if ev.C, err = hex.DecodeString(vlib.Str(r, "hex")); err != nil {
				return e, err
			}
		}
		e.Vals = append(e.Vals, ev)
	}
	return e, nil
}

func (h *harness) runRaw(c map[string]any) {
	pi := func(k string) int64 { v, _ := strconv.ParseInt(vlib.Str(c, k), 10, 64); return v }
	pu := func(k string) uint64 { v, _ := strconv.ParseUint(vlib.Str(c, k), 10, 64); return v }
	px := func(k string) uint64 { v, _ := strconv.ParseUint(vlib.Str(c, k), 16, 64); return v }
	rel := vlib.Str(c, "rel")
	switch vlib.Str(c, "k") {
	case "int64":
		h.checkInt64(pi("a"), pi("b"), rel)
	case "int32":
		h.checkInt32(int32(pi("a")), int32(pi("b")), rel)
	case "uint64":
		h.checkUint64(pu("a"), pu("b"), rel)
	case "comp":
		h.checkComp(pi("a1"), pi("a2"), pi("b1"), pi("b2"), vlib.Str(c, "flavour"), rel)
	case "float64":
		h.checkFloat64(px("a"), px("b"), rel)
	case "entity":
		e, err := parseEntity(c)
		if err != nil {
			h.inconclusive("bad raw entity: %v", err)
			return
		}
		h.checkEntity(e, nil)
	case "entity2":
		for _, k := range []string{"x", "y"} {
			e, err := parseEntity(vlib.Map(c, k))
			if err != nil {
				h.inconclusive("bad raw entity: %v", err)
				return
			}
			h.checkEntity(e, nil)
		}
	default:
		h.inconclusive("unknown raw case kind %q", vlib.Str(c, "k"))
	}
}

// ---------------------------------------------------------------------------------------------------------------
// seeded random real-domain cases, against the same relation

func intPool() []int64 {
	p := []int64{math.MinInt64, math.MinInt64 + 1, -1, 0, 1, math.MaxInt64, math.MaxInt64 - 1, math.MinInt32, math.MaxInt32,
		math.MinInt32 - 1, math.MaxInt32 + 1, 62, 46, -62, -46, 0x7C, 0x5C}
	for k := uint(1); k < 63; k++ {
		v := int64(1) << k
		p = append(p, v, v-1, v+1, -v, -v-1, -v+1)
	}
	return p
}

func floatPool() []uint64 {
	p := []uint64{}
	for _, m := range []uint64{0, 1, 2, fManM, fManM - 1, 1 << 51, 1<<51 - 1, 1<<51 + 1} {
		for _, e := range []uint64{0, 1, 2, 1022, 1023, 1024, 1075, 2045, 2046, 2047} {
			p = append(p, e<<52|m, fSign|e<<52|m)
		}
	}
	return p
}

func (h *harness) random(n int, rng *rand.Rand) {
	ip, fp := intPool(), floatPool()
	pickI := func() int64 {
		switch rng.Intn(4) {
		case 0:
			return ip[rng.Intn(len(ip))]
		case 1:
			return int64(rng.Uint64()) >> uint(rng.Intn(64))
		}
		return int64(rng.Uint64())
	}
	pickF := func() uint64 {
		switch rng.Intn(4) {
		case 0:
			return fp[rng.Intn(len(fp))]
		case 1:
			return math.Float64bits(rng.NormFloat64() * math.Pow(10, float64(rng.Intn(40)-20)))
		}
		return rng.Uint64()
	}
	h.embIdx = -1
	for i := 0; i < n; i++ {
		h.caseIdx = -1 - i
		a, b := pickI(), pickI()
		switch rng.Intn(8) {
		case 0:
			b = a
		case 1:
			b = a + 1 // wraps at MaxInt64: still an int64 pair
		case 2:
			b = -a
		}
		h.checkInt64(a, b, relOf(a < b, a > b))
		h.checkInt32(int32(a), int32(b), relOf(int32(a) < int32(b), int32(a) > int32(b)))
		h.checkUint64(uint64(a), uint64(b), relOf(uint64(a) < uint64(b), uint64(a) > uint64(b)))
		x, y := pickF(), pickF()
		switch rng.Intn(8) {
		case 0:
			y = x
		case 1:
			y = x + 1 // the next pattern
		case 2:
			y = x ^ fSign
		}
		h.checkFloat64(x, y, fRel(x, y))
		if i%4 == 0 {
			a2, b2 := pickI(), pickI()
			if rng.Intn(2) == 0 {
				b = a
			}
			h.checkComp(a, a2, b, b2, "ii", relOf(a < b || (a == b && a2 < b2), b < a || (a == b && b2 < a2)))
		}
	}
	h.res.Stats["random_number_pairs"] = n
	// random series
	special := []byte{'|', '\\', 0, 'a', '*', 1, 2, 4, '{', '}'}
	rbytes := func(ascii bool) []byte {
		l := rng.Intn(6)
		if rng.Intn(10) == 0 {
			l = rng.Intn(40)
		}
		b := make([]byte, l)
		for i := range b {
			switch {
			case rng.Intn(2) == 0:
				b[i] = special[rng.Intn(len(special))]
			case ascii:
				b[i] = byte(rng.Intn(128))
			default:
				b[i] = byte(rng.Intn(256))
			}
		}
		return b
	}
	rval := func() eval {
		switch rng.Intn(7) {
		case 0:
			return eval{T: "null"}
		case 1, 2:
			return eval{T: "str", C: rbytes(true)}
		case 3, 4:
			return eval{T: "bin", C: rbytes(false)}
		}
		v := pickI()
		if rng.Intn(3) == 0 { // zig-zag bytes made of special bytes
			u := uint64(0)
			for k := 0; k < 8; k++ {
				u = u<<8 | uint64(special[rng.Intn(4)])
			}
			v = int64(u>>1) ^ -int64(u&1)
		}
		return eval{T: "int", I: v}
	}
	ne := n / 4
	for i := 0; i < ne; i++ {
		h.caseIdx = -1 - n - i
		e := entity{Subj: rbytes(true)}
		for k := rng.Intn(5); k > 0; k-- {
			e.Vals = append(e.Vals, rval())
		}
		h.checkEntity(e, nil)
		// an adversarial sibling: the same bytes split at another place (moves content across the value boundary)
		if len(e.Vals) >= 2 && (e.Vals[0].T == "str" || e.Vals[0].T == "bin") && e.Vals[1].T == e.Vals[0].T {
			joined := append(append(append([]byte{}, e.Vals[0].C...), '|', byte(pbv1.ValueTypeStr)), e.Vals[1].C...)
			cut := rng.Intn(len(joined) + 1)
			sib := entity{Subj: e.Subj, Vals: append([]eval{{T: e.Vals[0].T, C: joined[:cut]}, {T: e.Vals[0].T, C: joined[cut:]}}, e.Vals[2:]...)}
			if e.Vals[0].T == "str" {
				for _, v := range sib.Vals[:2] {
					for j := range v.C {
						v.C[j] &= 0x7F
					}
				}
			}
			h.checkEntity(sib, nil)
			one := entity{Subj: e.Subj, Vals: append([]eval{{T: e.Vals[0].T, C: joined}}, e.Vals[2:]...)}
			h.checkEntity(one, nil)
		}
	}
	h.res.Stats["random_series"] = ne
}

func main() {
	mode := flag.String("mode", "cases", "cases | raw")
	in := flag.String("in", "", "ndjson input")
	out := flag.String("out", "", "result file")
	nrand := flag.Int("random", 0, "number of seeded random number pairs (and a quarter as many series)")
	mutate := flag.String("mutate", "", "binding self-test: int-swap | float-swap | entity-noescape")
	flag.Parse()
	h := &harness{res: vlib.NewResult(), mutate: *mutate, keys: map[string]string{}, keyRaw: map[string]any{}, nontriv: map[uint64]struct{}{}}
	if *in != "" {
		lines, err := vlib.ReadLines(*in)
		if err != nil {
			h.inconclusive("cannot read %s: %v", *in, err)
		}
		for i, l := range lines {
			h.caseIdx = i
			h.res.Behaviours++
			if *mode == "raw" {
				h.embIdx = -1
				h.runRaw(l)
			} else {
				h.runCase(vlib.Map(l, "c"))
			}
		}
	}
	if *nrand > 0 {
		h.random(*nrand, rand.New(rand.NewSource(vlib.Seed())))
	}
	for k, v := range h.res.Stats {
		if strings.HasPrefix(k, "eval_") && k != "eval_entity_keys" {
			h.res.Steps += v
		}
	}
	h.res.Stats["distinct_nontrivial"] = len(h.nontriv)
	h.res.Stats["distinct_series_keys"] = len(h.keys)
	data, _ := json.MarshalIndent(output{Result: h.res, Repro: h.repro}, "", " ")
	if err := os.WriteFile(*out, data, 0o644); err != nil {
		fmt.Fprintln(os.Stderr, "cannot write result:", err)
		os.Exit(3)
	}
}
