#!/bin/bash
# Bootstrap: makes the real BanyanDB engines compile offline (generated protobuf code and
# gomock mocks are absent from the pinned tree) without touching /repo.  Idempotent.
# Output: /verif/.build/{bin,gen,mocks,overlay.json}
set -euo pipefail
export GOFLAGS=-mod=mod GOPROXY=off
unset GOTOOLCHAIN GOSUMDB || true
V=/verif
B=${VERIF_BUILD:-$V/.build}
R=${VERIF_REPO:-/repo}
mkdir -p "$B/bin" "$B/mocks" "$B/tlc"

need_build() { [ ! -x "$1" ]; }

if need_build $B/bin/protogen || [ -n "$(find $V/tools/protogen -newer $B/bin/protogen -name '*.go' 2>/dev/null)" ]; then
  (cd $V/tools/protogen && go build -o $B/bin/protogen .)
fi
if need_build $B/bin/protoc-gen-go; then
  (cd $R && go build -o $B/bin/protoc-gen-go google.golang.org/protobuf/cmd/protoc-gen-go)
fi
if need_build $B/bin/protoc-gen-grpc-gateway; then
  (cd $R && go build -o $B/bin/protoc-gen-grpc-gateway github.com/grpc-ecosystem/grpc-gateway/v2/protoc-gen-grpc-gateway)
fi
if need_build $B/bin/mockgen; then
  (cd $R && go build -o $B/bin/mockgen go.uber.org/mock/mockgen)
fi

# regenerate protobuf code when any .proto changed (hash of the tree)
PH=$(cd $R/api/proto && find . -name '*.proto' -print0 | sort -z | xargs -0 sha256sum | sha256sum | cut -c1-16)
if [ ! -f $B/gen/.hash ] || [ "$(cat $B/gen/.hash)" != "$PH" ] || [ ! -f $B/overlay.base.json ]; then
  : > $B/index.html
  $B/bin/protogen -proto_root $R/api/proto -out $B/gen -overlay $B/overlay.base.json \
     -protoc-gen-go $B/bin/protoc-gen-go -protoc-gen-grpc-gateway $B/bin/protoc-gen-grpc-gateway \
     -extra $R/ui/dist/index.html=$B/index.html
  echo "$PH" > $B/gen/.hash
fi

# gomock mocks (source mode). Regenerated when the source interface file changed.
mock() { # src pkg dstrel extra...
  local src=$1 pkg=$2 dst=$3; shift 3
  local out=$B/mocks/$(echo "$dst" | tr '/' '_')
  local h; h=$(sha256sum $R/$src | cut -c1-16)
  if [ ! -f "$out" ] || [ "$(cat $out.hash 2>/dev/null)" != "$h" ]; then
    (cd $R && $B/bin/mockgen -source=$src -package=$pkg "$@" > $out.tmp 2>$out.err) || { cat $out.err >&2; return 1; }
    mv $out.tmp $out; echo "$h" > $out.hash
  fi
  echo "$R/$dst=$out" >> $B/mocks/entries.txt
}
: > $B/mocks/entries.txt
mock banyand/metadata/schema/schema.go schema banyand/metadata/schema/schema_mock.go -exclude_interfaces=HasMetadata -self_package=github.com/apache/skywalking-banyandb/banyand/metadata/schema
mock banyand/metadata/metadata.go metadata banyand/metadata/metadata_mock.go -self_package=github.com/apache/skywalking-banyandb/banyand/metadata
mock banyand/queue/queue.go queue banyand/queue/queue_mock.go -self_package=github.com/apache/skywalking-banyandb/banyand/queue
mock pkg/bus/bus.go queue banyand/queue/bus_mock.go -exclude_interfaces=Publisher,Broadcaster,Subscriber -self_package=github.com/apache/skywalking-banyandb/banyand/queue
mock pkg/node/interface.go mock pkg/node/mock/interface_mock.go
mock pkg/flow/types.go flow pkg/flow/types_mock.go -self_package=github.com/apache/skywalking-banyandb/pkg/flow
mock pkg/meter/meter.go meter pkg/meter/meter_mock.go -self_package=github.com/apache/skywalking-banyandb/pkg/meter

# final overlay = protobuf + mocks + harness packages + export files
python3 $V/tools/mkoverlay.py "$R" "$B"
echo "setup: overlay ready at $B/overlay.json"
